//! The owning type `Bump`: constructors, `Drop`, `reset`, raw round trip (C05 / C12 / C07).
use core::alloc::Layout;

use super::{spec::*, state::*};
use crate::{Bump, alloc::AllocError, settings::BumpAllocatorSettings};

/// `which`: 0 `try_new_in`, 1 `try_with_size_in(100)`, 2 `try_with_capacity_in(40 bytes, align 8)` (not instantiated:
/// CBMC runs out of memory; the arithmetic is the Verus lemma fresh_chunk_fits),
/// 3 the same three with a refusing base allocator, 4 two chunks then `reset`, 5 `into_raw` / `from_raw`
pub(crate) fn ob_bump_owner<S>(which: u8)
where
    S: BumpAllocatorSettings,
    LogAlloc: crate::BaseAllocator<S::GuaranteedAllocated>,
{
    log_reset();
    let layout = Layout::from_size_align(40, 8).unwrap();
    match which {
        0 | 1 | 2 => {
            let r = match which {
                0 => Bump::<LogAlloc, S>::try_new_in(LogAlloc::default()),
                1 => Bump::<LogAlloc, S>::try_with_size_in(100, LogAlloc::default()),
                _ => Bump::<LogAlloc, S>::try_with_capacity_in(layout, LogAlloc::default()),
            };
            let Ok(bump) = r else {
                kani::assert(false, "C07.constructor.not_refused_succeeds");
                return;
            };
            kani::assert(unsafe { N_GRANTS } == 1 && live_grants() == 1, "C05.constructor.exactly_one_chunk");
            let g = geo::<LogAlloc, S>(unsafe { GRANTS[0] });
            kani::assert(g.size % 16 == 0 && bump.stats().size() == g.size && bump.stats().allocated() == 0, "C10.constructor.stats");
            if which == 2 {
                // the layout the chunk was created for can be allocated without another chunk
                let p = bump.as_scope().raw.alloc::<AllocError>(layout);
                kani::assert(p.is_ok() && unsafe { N_GRANTS } == 1, "C12.with_capacity.layout_fits_without_another_chunk");
            }
            drop(bump);
            kani::assert(live_grants() == 0 && unsafe { DEALLOC_CALLS } == 1, "C05.drop.every_chunk_released_once");
        }
        3 => {
            unsafe { BUDGET = 0 };
            let w: u8 = kani::any();
            let r = match w % 3 {
                0 => Bump::<LogAlloc, S>::try_new_in(LogAlloc::default()),
                1 => Bump::<LogAlloc, S>::try_with_size_in(100, LogAlloc::default()),
                _ => Bump::<LogAlloc, S>::try_with_capacity_in(layout, LogAlloc::default()),
            };
            kani::assert(r.is_err(), "C07.constructor.refused_is_an_error");
            kani::assert(live_grants() == 0 && unsafe { DEALLOC_CALLS } == 0, "C07.constructor.refused_leaks_nothing");
        }
        4 => {
            let Ok(mut bump) = Bump::<LogAlloc, S>::try_new_in(LogAlloc::default()) else { return };
            let g0 = geo::<LogAlloc, S>(unsafe { GRANTS[0] });
            // a request larger than the first chunk forces a second one
            let big = Layout::from_size_align(g0.size, 1).unwrap();
            kani::assert(bump.as_scope().raw.alloc::<AllocError>(big).is_ok() && unsafe { N_GRANTS } == 2, "C12.alloc.second_chunk");
            bump.reset();
            kani::assert(live_grants() == 1 && unsafe { DEALLOC_CALLS } == 1 && unsafe { GRANTS[1].live }, "C05.reset.keeps_only_the_newest_chunk");
            kani::assert(bump.stats().count() == 1 && bump.stats().allocated() == 0, "C03.reset.nothing_allocated");
            drop(bump);
            kani::assert(live_grants() == 0 && unsafe { DEALLOC_CALLS } == 2, "C05.drop.every_chunk_released_once");
        }
        _ => {
            let Ok(bump) = Bump::<LogAlloc, S>::try_new_in(LogAlloc::default()) else { return };
            let _ = bump.as_scope().raw.alloc::<AllocError>(Layout::new::<u32>());
            let allocated = bump.stats().allocated();
            kani::assert(allocated >= 4 && unsafe { N_GRANTS } == 1, "C12.new.first_chunk_serves_a_small_request");
            let raw = bump.into_raw();
            kani::assert(live_grants() == 1 && unsafe { DEALLOC_CALLS } == 0, "C05.into_raw.releases_nothing");
            let back = unsafe { Bump::<LogAlloc, S>::from_raw(raw) };
            kani::assert(back.stats().allocated() == allocated && back.stats().count() == 1, "C05.from_raw.same_arena");
            drop(back);
            kani::assert(live_grants() == 0 && unsafe { DEALLOC_CALLS } == 1, "C05.drop.every_chunk_released_once");
        }
    }
    kani::cover!(true, "ran");
}

type SUp1 = St<1, true, true, true, true>;
type SDn8 = St<8, false, true, true, true>;
type SDn4Un = St<4, false, false, true, true>;

macro_rules! owner {
    ($($name:ident: $s:ty, $which:expr;)*) => {$(
        #[kani::proof]
        #[kani::unwind(4)]
        pub(crate) fn $name() {
            ob_bump_owner::<$s>($which);
        }
    )*};
}
owner! {
    owner_new_up1: SUp1, 0;
    owner_new_dn8: SDn8, 0;
    owner_with_size_up1: SUp1, 1;
    owner_with_size_dn8: SDn8, 1;
    owner_refused_up1: SUp1, 3;
    owner_refused_dn8: SDn8, 3;
    owner_reset_up1: SUp1, 4;
    owner_reset_dn8: SDn8, 4;
    owner_raw_round_trip_up1: SUp1, 5;
    owner_raw_round_trip_dn8: SDn8, 5;
}

// over-granting base allocators whose extra bytes are a multiple of 16 but not of the (over-aligned) header alignment
#[kani::proof]
#[kani::unwind(4)]
pub(crate) fn overgrant_dn1_align32_by48() {
    super::h_arena::ob_overgrant::<LogAlloc<Align32>, St<1, false, true, true, true>>(1, 64, 48);
}
#[kani::proof]
#[kani::unwind(4)]
pub(crate) fn overgrant_dn8_align64_by80() {
    super::h_arena::ob_overgrant::<LogAlloc<Align64>, St<8, false, true, true, true>>(1, 128, 80);
}
#[kani::proof]
#[kani::unwind(4)]
pub(crate) fn overgrant_up4_align32_by16() {
    super::h_arena::ob_overgrant::<LogAlloc<Align32>, St<4, true, true, true, true>>(1, 64, 16);
}

/// `BumpClaimGuard` on an UNALLOCATED arena (C14): whether or not anything was allocated through the guard, after the
/// guard is dropped the original is unclaimed, continues where the guard stopped and serves requests again.
pub(crate) fn ob_claim_guard_unallocated<S>(through_guard: bool)
where
    S: BumpAllocatorSettings<GuaranteedAllocated = crate::settings::False>,
{
    use crate::{BumpScope, polyfill::transmute_ref, traits::BumpAllocatorScope};
    log_reset();
    let mut raw = crate::raw_bump::RawBump::<LogAlloc, S>::new();
    let mut guard_chunk = 0usize;
    {
        let scope: &BumpScope<'_, LogAlloc, S> = unsafe { transmute_ref(&raw) };
        let guard = scope.claim();
        kani::assert(scope.raw.is_claimed(), "C14.guard_unallocated.original_claimed_while_alive");
        kani::assert(scope.raw.alloc::<AllocError>(Layout::new::<u32>()).is_err(), "C14.guard_unallocated.original_fails_while_alive");
        if through_guard {
            kani::assert(guard.raw.alloc::<AllocError>(Layout::new::<u32>()).is_ok(), "C12.guard_unallocated.first_chunk_through_the_guard");
        }
        guard_chunk = guard.raw.chunk.get().header().as_ptr() as usize;
    }
    kani::assert(!raw.is_claimed(), "C14.guard_unallocated.drop_unclaims");
    kani::assert(raw.chunk.get().header().as_ptr() as usize == guard_chunk, "C14.guard_unallocated.continues_where_the_guard_stopped");
    kani::assert(raw.chunk.get().is_unallocated() == !through_guard, "C14.guard_unallocated.allocated_iff_the_guard_allocated");
    if !through_guard {
        kani::assert(raw.alloc::<AllocError>(Layout::new::<u64>()).is_ok(), "C14.guard_unallocated.original_serves_requests_again");
    } else {
        kani::assert(raw.chunk.get().alloc(crate::layout::CustomLayout(Layout::new::<u64>())).is_some(), "C14.guard_unallocated.original_serves_requests_again");
    }
    unsafe { raw.manually_drop() };
    kani::assert(live_grants() == 0, "C05.guard_unallocated.every_chunk_released");
    kani::cover!(true, "ran");
}

type SUp1Un = St<1, true, false, true, true>;

#[kani::proof]
#[kani::unwind(4)]
pub(crate) fn claim_guard_unallocated_up1() {
    ob_claim_guard_unallocated::<SUp1Un>(false);
}
#[kani::proof]
#[kani::unwind(4)]
pub(crate) fn claim_guard_unallocated_dn4() {
    ob_claim_guard_unallocated::<SDn4Un>(false);
}
#[kani::proof]
#[kani::unwind(4)]
pub(crate) fn claim_guard_unallocated_used_up1() {
    ob_claim_guard_unallocated::<SUp1Un>(true);
}

/// `MutBumpVec::map_in_place` to an element type whose size does not divide the old one, then `into_slice` (C15): the
/// position advances by the size of the final contents plus the alignment padding of the region - nothing else.
pub(crate) fn ob_mut_vec_map_in_place<S>(hint: usize)
where
    S: BumpAllocatorSettings,
    LogAlloc: crate::BaseAllocator<S::GuaranteedAllocated>,
{
    use crate::{BumpScope, MutBumpVec, polyfill::transmute_mut};
    let mut a = Arena::<LogAlloc, S>::build(1, hint);
    a.havoc();
    let pos0 = a.snaps()[0].pos;
    unsafe { BUDGET = 0 };
    let vals: [u32; 2] = kani::any();
    let mut out = (0usize, 0usize);
    let mut pushed = 0;
    {
        let scope: &mut BumpScope<'_, LogAlloc, S> = unsafe { transmute_mut(&mut a.bump) };
        let mut v = MutBumpVec::<u32, _>::new_in(&mut *scope);
        if v.try_push(vals[0]).is_ok() {
            pushed += 1;
        }
        if pushed == 1 && v.try_push(vals[1]).is_ok() {
            pushed += 1;
        }
        let w = v.map_in_place(|x| [x as u8, (x >> 8) as u8, (x >> 16) as u8]);
        kani::assert(w.len() == pushed && w.capacity() >= w.len(), "C08.mut_vec.map_in_place.len_and_capacity");
        let sl = w.into_slice();
        out = (sl.as_ptr() as usize, sl.len());
        if pushed == 2 {
            kani::assert(sl[0][0] == vals[0] as u8 && sl[1][2] == (vals[1] >> 16) as u8, "C15.mut_vec.map_in_place.into_slice_yields_the_mapped_elements");
        }
    }
    unsafe { BUDGET = usize::MAX };
    let pos1 = a.snaps()[0].pos;
    if pushed > 0 {
        // alignment padding of the region: the vector was prepared for u32 (align 4)
        let pad = if S::UP { ((pos0 + 3) & !3) - pos0 } else { pos0 - (pos0 & !3) };
        let adv = if S::UP { pos1 - pos0 } else { pos0 - pos1 };
        let contents = 3 * pushed;
        let min_pad = if S::UP { ((pos0 + pad + contents + S::MIN_ALIGN - 1) & !(S::MIN_ALIGN - 1)) - (pos0 + pad + contents) } else { 0 };
        kani::assert(adv >= contents, "C01.mut_vec.map_in_place.slice_is_allocated");
        kani::assert(adv <= contents + pad + min_pad + (if S::UP { 0 } else { S::MIN_ALIGN - 1 }), "C15.mut_vec.map_in_place.advance_is_contents_plus_alignment_padding");
    }
    kani::assert(a.wf(), "C10.mut_vec.map_in_place.wf");
    kani::cover!(pushed == 2, "two-elements");
}

#[kani::proof]
#[kani::unwind(5)]
pub(crate) fn mut_vec_map_in_place_up1() {
    ob_mut_vec_map_in_place::<SUp1>(64);
}
#[kani::proof]
#[kani::unwind(5)]
pub(crate) fn mut_vec_map_in_place_dn1() {
    ob_mut_vec_map_in_place::<St<1, false, true, true, true>>(64);
}

/// Chunks acquired earlier stay usable (C03): with the current chunk too full for a request and the base allocator
/// refusing new memory, a request that fits into an EMPTY later chunk is served from that chunk (which is reset
/// first, whatever stale position it carries) - the slow path must not ask for memory it already has.
pub(crate) fn ob_later_chunk_reuse<S>()
where
    S: BumpAllocatorSettings,
    LogAlloc: crate::BaseAllocator<S::GuaranteedAllocated>,
{
    let mut a = Arena::<LogAlloc, S>::build(2, 64);
    a.havoc_at(0);
    let g0 = a.geo(0);
    let g1 = a.geo(1);
    let pos0 = a.snaps()[0].pos;
    let layout = any_layout(48, 3);
    // does not fit into what is left of chunk 0 ...
    let left0 = if S::UP { g0.content_end - pos0 } else { pos0 - g0.content_start };
    kani::assume(layout.size() > left0);
    // ... but fits into chunk 1 when that is empty, with room for any alignment padding
    kani::assume(layout.size() + layout.align() <= g1.content_end - g1.content_start);
    unsafe { BUDGET = 0 };
    let r = a.bump.alloc::<AllocError>(layout);
    unsafe { BUDGET = usize::MAX };
    kani::assert(r.is_ok(), "C03.alloc.retained_later_chunk_is_reused_instead_of_asking_for_memory");
    if let Ok(p) = r {
        let addr = p.as_ptr() as usize;
        kani::assert(addr >= g1.content_start && addr + layout.size() <= g1.content_end && al(addr, layout.align()), "C01.alloc.block_inside_the_later_chunk");
        kani::assert(a.cur_index() == 1 && unsafe { N_GRANTS } == 2, "C03.alloc.no_new_chunk");
        // the later chunk was used from its start: nothing of its stale contents stays allocated
        let p1 = a.snaps()[1].pos;
        let used1 = if S::UP { p1 - g1.content_start } else { g1.content_end - p1 };
        kani::assert(used1 < layout.size() + layout.align() + S::MIN_ALIGN, "C03.alloc.later_chunk_was_reset_before_use");
    }
    kani::assert(a.wf(), "C10.alloc.wf");
    kani::cover!(layout.size() > 16, "larger-than-the-first-chunk");
}

#[kani::proof]
#[kani::unwind(4)]
pub(crate) fn later_chunk_reuse_up1() {
    ob_later_chunk_reuse::<SUp1>();
}
#[kani::proof]
#[kani::unwind(4)]
pub(crate) fn later_chunk_reuse_dn8() {
    ob_later_chunk_reuse::<SDn8>();
}
#[kani::proof]
#[kani::unwind(4)]
pub(crate) fn later_chunk_reuse_dn1() {
    ob_later_chunk_reuse::<St<1, false, true, true, true>>();
}
