//! Symbolic arena states for pointer-level obligations.
//!
//! States are built with the REAL constructors (`NonDummyChunk::new`, `append_for`) over a
//! logging base allocator, then every degree of freedom a history can reach is freed:
//! which chunk is current, the bump position of every chunk (stale positions of later chunks
//! included), memory contents (fresh CBMC objects are nondeterministic).
//!
//! Geometry (`Geo`) is derived from what the base allocator GRANTED, independently of the
//! accessors under test (`chunk_start`, `content_end`, `after_header`, ...).
use core::{alloc::Layout, cell::Cell, marker::PhantomData, mem, ptr::NonNull};

use super::spec::*;
use crate::{
    alloc::{AllocError, Allocator},
    chunk::{ChunkHeader, ChunkSize},
    raw_bump::{NonDummyChunk, RawBump, RawChunk},
    settings::{BumpAllocatorSettings, BumpSettings},
};

/// Settings instantiation: MINIMUM_CHUNK_SIZE = 0 so that small literal size hints give small chunks.
pub(crate) type St<const MA: usize, const UP: bool, const GA: bool, const DE: bool, const SH: bool> =
    BumpSettings<MA, UP, GA, true, DE, SH, 0>;

pub(crate) const MAX_GRANTS: usize = 4;

#[derive(Clone, Copy)]
pub(crate) struct Grant {
    pub ptr: usize,
    /// the same address with its provenance (for reading witness bytes)
    pub raw: *mut u8,
    pub req_size: usize,
    pub req_align: usize,
    pub granted: usize,
    pub live: bool,
}

const NO_GRANT: Grant = Grant { ptr: 0, raw: core::ptr::null_mut(), req_size: 0, req_align: 0, granted: 0, live: false };

// Kani harnesses are single threaded; the log is global so that ZST allocators can use it.
pub(crate) static mut GRANTS: [Grant; MAX_GRANTS] = [NO_GRANT; MAX_GRANTS];
pub(crate) static mut N_GRANTS: usize = 0;
pub(crate) static mut ALLOC_CALLS: usize = 0;
pub(crate) static mut DEALLOC_CALLS: usize = 0;
/// how many further `allocate` calls may succeed (usize::MAX = unlimited)
pub(crate) static mut BUDGET: usize = usize::MAX;
/// when set, every `allocate` call fails nondeterministically
pub(crate) static mut MAY_FAIL: bool = false;
/// extra bytes granted on top of the request (0 = exact)
pub(crate) static mut OVERGRANT: usize = 0;
/// over-grant to use for the next `Arena::build` (log_reset clears OVERGRANT itself)
pub(crate) static mut PENDING_OVERGRANT: usize = 0;

pub(crate) fn log_reset() {
    unsafe {
        GRANTS = [NO_GRANT; MAX_GRANTS];
        N_GRANTS = 0;
        ALLOC_CALLS = 0;
        DEALLOC_CALLS = 0;
        BUDGET = usize::MAX;
        MAY_FAIL = false;
        OVERGRANT = 0;
    }
}

pub(crate) fn live_grants() -> usize {
    // (no loop: keeps every harness' unwinding bound at "number of chunks + 1")
    unsafe { GRANTS[0].live as usize + GRANTS[1].live as usize + GRANTS[2].live as usize + GRANTS[3].live as usize }
}

/// Base-allocator model.  `P` is a payload that gives the allocator value a size / alignment
/// (it changes `size_of::<ChunkHeader<A>>()` and `align_of::<ChunkHeader<A>>()`).
#[derive(Clone, Copy, Default)]
pub(crate) struct LogAlloc<P: Copy + Default = ()>(pub P);

#[derive(Clone, Copy, Default)]
#[repr(align(32))]
pub(crate) struct Align32(pub u64);

#[derive(Clone, Copy, Default)]
#[repr(align(64))]
pub(crate) struct Align64(pub u8);

unsafe impl<P: Copy + Default> Allocator for LogAlloc<P> {
    fn allocate(&self, layout: Layout) -> Result<NonNull<[u8]>, AllocError> {
        unsafe {
            ALLOC_CALLS += 1;
            if MAY_FAIL && kani::any() {
                return Err(AllocError);
            }
            if BUDGET == 0 {
                return Err(AllocError);
            }
            if BUDGET != usize::MAX {
                BUDGET -= 1;
            }
            assert!(N_GRANTS < MAX_GRANTS);
            assert!(layout.size() != 0);
            let granted = layout.size() + OVERGRANT;
            let p = std::alloc::alloc(Layout::from_size_align_unchecked(granted, layout.align()));
            if p.is_null() {
                return Err(AllocError);
            }
            GRANTS[N_GRANTS] = Grant { ptr: p as usize, raw: p, req_size: layout.size(), req_align: layout.align(), granted, live: true };
            N_GRANTS += 1;
            Ok(NonNull::slice_from_raw_parts(NonNull::new_unchecked(p), granted))
        }
    }

    unsafe fn deallocate(&self, ptr: NonNull<u8>, layout: Layout) {
        unsafe {
            DEALLOC_CALLS += 1;
            let p = ptr.as_ptr() as usize;
            let found = if GRANTS[0].live && GRANTS[0].ptr == p {
                0
            } else if GRANTS[1].live && GRANTS[1].ptr == p {
                1
            } else if GRANTS[2].live && GRANTS[2].ptr == p {
                2
            } else if GRANTS[3].live && GRANTS[3].ptr == p {
                3
            } else {
                MAX_GRANTS
            };
            // C05: released exactly once, with the same alignment and a fitting size
            kani::assert(found < MAX_GRANTS, "C05.release_only_outstanding_blocks");
            if found < MAX_GRANTS {
                let g = GRANTS[found];
                kani::assert(layout.align() == g.req_align, "C05.release_same_alignment");
                kani::assert(g.req_size <= layout.size() && layout.size() <= g.granted, "C05.release_size_fits");
                GRANTS[found].live = false;
                std::alloc::dealloc(ptr.as_ptr(), Layout::from_size_align_unchecked(g.granted, g.req_align));
            }
        }
    }
}

/// `std::alloc::alloc` with a LITERAL size at each call site.  CBMC treats a dynamic object whose
/// size is a compile-time constant field-sensitively; the chunk sizes are logically constant in
/// every harness (literal size hints) but reach `allocate` through `checked_next_power_of_two`
/// etc., which CBMC's constant propagation does not see through.  The fallback keeps it total.
#[inline(never)]
unsafe fn alloc_literal(size: usize, align: usize) -> *mut u8 {
    macro_rules! lit {
        ($($n:literal),*) => {
            match size {
                $($n => unsafe { std::alloc::alloc(Layout::from_size_align_unchecked($n, align)) },)*
                _ => unsafe { std::alloc::alloc(Layout::from_size_align_unchecked(size, align)) },
            }
        };
    }
    lit!(48, 64, 112, 128, 240, 256, 496, 512, 1008, 1024, 2032, 2048, 4080, 4096)
}

/// Geometry of a chunk derived from its grant (DESIGN.md §2.2).
#[derive(Clone, Copy)]
pub(crate) struct Geo {
    pub header: usize,
    pub content_start: usize,
    pub content_end: usize,
    pub chunk_start: usize,
    pub chunk_end: usize,
    pub size: usize,
}

pub(crate) fn geo<A, S: BumpAllocatorSettings>(g: Grant) -> Geo {
    let h = mem::size_of::<ChunkHeader<A>>();
    let ha = mem::align_of::<ChunkHeader<A>>();
    let sa = if S::UP { 16 } else { ha };
    let size = g.granted & !(sa - 1);
    if S::UP {
        Geo { header: g.ptr, content_start: g.ptr + h, content_end: g.ptr + size, chunk_start: g.ptr, chunk_end: g.ptr + size, size }
    } else {
        Geo { header: g.ptr + size - h, content_start: g.ptr, content_end: g.ptr + size - h, chunk_start: g.ptr, chunk_end: g.ptr + size, size }
    }
}

/// A snapshot of every mutable header field of a chunk.
#[derive(Clone, Copy, PartialEq, Eq)]
pub(crate) struct HeaderSnap {
    pub pos: usize,
    pub end: usize,
    pub prev: usize,
    pub next: usize,
}

pub(crate) fn snap<A>(h: NonNull<ChunkHeader<A>>) -> HeaderSnap {
    unsafe {
        let r = h.as_ref();
        HeaderSnap {
            pos: r.pos.get().as_ptr() as usize,
            end: r.end.as_ptr() as usize,
            prev: r.prev.get().map_or(0, |p| p.as_ptr() as usize),
            next: r.next.get().map_or(0, |p| p.as_ptr() as usize),
        }
    }
}

/// compile-time chunk sizes (see `Arena::build`)
pub(crate) struct Sizes<A, S, const H: usize>(PhantomData<fn() -> (A, S)>);

impl<A, S: BumpAllocatorSettings, const H: usize> Sizes<A, S, H> {
    pub(crate) const S0: ChunkSize<A, S> = match ChunkSize::<A, S>::from_hint(H) {
        Some(s) => s,
        None => panic!("size"),
    };
    /// what `append_for` computes for a small request: from_hint(2 * previous chunk size)
    pub(crate) const S1: ChunkSize<A, S> = match ChunkSize::<A, S>::from_hint(2 * Self::S0.layout().unwrap().size()) {
        Some(s) => s,
        None => panic!("size"),
    };
    pub(crate) const S2: ChunkSize<A, S> = match ChunkSize::<A, S>::from_hint(2 * Self::S1.layout().unwrap().size()) {
        Some(s) => s,
        None => panic!("size"),
    };
}

/// An arena of `k` chunks (k <= 3) together with the ghost view of it.
pub(crate) struct Arena<A, S: BumpAllocatorSettings> {
    pub bump: RawBump<A, S>,
    pub chunks: [Option<NonDummyChunk<A, S>>; 3],
    pub k: usize,
    /// index of the current chunk
    pub cur: usize,
}

impl<A, S> Arena<A, S>
where
    A: crate::BaseAllocator<S::GuaranteedAllocated> + Default,
    S: BumpAllocatorSettings,
{
    /// Build `k` chunks with the real constructor `NonDummyChunk::new`; chunk sizes are what
    /// `ChunkSize::from_hint(hint), from_hint(2*hint), from_hint(4*hint)` yield (the sizes `append_for`
    /// produces for small requests), but evaluated at COMPILE time: CBMC treats a dynamic object
    /// of literal size field-sensitively, whereas a size that went through
    /// `checked_next_power_of_two` at verification time is symbolic to it and every header access
    /// becomes an array-theory constraint (measured: 10 M clauses for one list walk).
    /// The result is a fresh arena (every position at its start); `wf()` is asserted by callers.
    pub(crate) fn build(k: usize, hint: usize) -> Self {
        match hint {
            64 => Self::build_c::<64>(k),
            128 => Self::build_c::<128>(k),
            256 => Self::build_c::<256>(k),
            512 => Self::build_c::<512>(k),
            _ => panic!("unsupported literal hint"),
        }
    }

    /// Same with a base allocator that grants `over` bytes more than requested for every chunk.
    pub(crate) fn build_over(k: usize, hint: usize, over: usize) -> Self {
        unsafe { PENDING_OVERGRANT = over };
        let a = Self::build(k, hint);
        unsafe { PENDING_OVERGRANT = 0 };
        a
    }

    fn build_c<const H: usize>(k: usize) -> Self {
        log_reset();
        unsafe { OVERGRANT = PENDING_OVERGRANT };
        let c0 = NonDummyChunk::<A, S>::new::<AllocError>(Sizes::<A, S, H>::S0, None, A::default()).unwrap();
        let mut chunks = [Some(c0), None, None];
        if k >= 2 {
            let c1 = NonDummyChunk::<A, S>::new::<AllocError>(Sizes::<A, S, H>::S1, Some(c0), A::default()).unwrap();
            unsafe { c0.header().as_ref().next.set(Some(c1.header())) };
            chunks[1] = Some(c1);
            if k >= 3 {
                let c2 = NonDummyChunk::<A, S>::new::<AllocError>(Sizes::<A, S, H>::S2, Some(c1), A::default()).unwrap();
                unsafe { c1.header().as_ref().next.set(Some(c2.header())) };
                chunks[2] = Some(c2);
            }
        }
        let bump = RawBump { chunk: Cell::new(*c0) };
        Arena { bump, chunks, k, cur: 0 }
    }

    pub(crate) fn chunk(&self, i: usize) -> NonDummyChunk<A, S> {
        self.chunks[i].unwrap()
    }

    pub(crate) fn geo(&self, i: usize) -> Geo {
        geo::<A, S>(unsafe { GRANTS[i] })
    }

    /// Free every degree of freedom a history can reach: current chunk, all positions.
    pub(crate) fn havoc(&mut self) {
        let cur: usize = kani::any();
        kani::assume(cur < self.k);
        self.havoc_at(cur);
    }

    /// Same with a given (possibly concrete) current chunk index.
    pub(crate) fn havoc_at(&mut self, cur: usize) {
        self.cur = cur;
        let mut i = 0;
        while i < self.k {
            let g = self.geo(i);
            let pos: usize = kani::any();
            kani::assume(pos >= g.content_start && pos <= g.content_end);
            if i == cur {
                kani::assume(al(pos, S::MIN_ALIGN));
            }
            unsafe { self.chunk(i).set_pos_addr(pos) };
            i += 1;
        }
        self.bump.chunk.set(*self.chunk(cur));
    }

    pub(crate) fn snaps(&self) -> [HeaderSnap; 3] {
        let z = HeaderSnap { pos: 0, end: 0, prev: 0, next: 0 };
        let mut r = [z; 3];
        let mut i = 0;
        while i < self.k {
            r[i] = snap(self.chunk(i).header());
            i += 1;
        }
        r
    }

    pub(crate) fn cur_index(&self) -> usize {
        let h = self.bump.chunk.get().header().as_ptr() as usize;
        let mut i = 0;
        let mut r = 3;
        while i < self.k {
            if self.chunk(i).header().as_ptr() as usize == h {
                r = i;
            }
            i += 1;
        }
        r
    }

    /// The representation invariant (C10, first sentence), over the grant-derived geometry.
    pub(crate) fn wf(&self) -> bool {
        let ci = self.cur_index();
        if ci >= self.k {
            return false;
        }
        let mut ok = true;
        let mut i = 0;
        while i < self.k {
            let g = self.geo(i);
            let c = self.chunk(i);
            let s = snap(c.header());
            ok = ok && c.header().as_ptr() as usize == g.header;
            ok = ok && g.size % 16 == 0 && g.size >= mem::size_of::<ChunkHeader<A>>();
            ok = ok && s.end == (if S::UP { g.chunk_end } else { g.chunk_start });
            ok = ok && s.pos >= g.content_start && s.pos <= g.content_end;
            ok = ok && s.prev == (if i == 0 { 0 } else { self.geo(i - 1).header });
            ok = ok && s.next == (if i + 1 == self.k { 0 } else { self.geo(i + 1).header });
            if i > 0 {
                ok = ok && g.size > self.geo(i - 1).size;
            }
            if i == ci {
                ok = ok && al(s.pos, S::MIN_ALIGN);
            }
            i += 1;
        }
        ok
    }

    /// allocated(b): whole content of chunks before the current one + the part of the current chunk behind pos.
    pub(crate) fn is_allocated(&self, addr: usize) -> bool {
        let ci = self.cur_index();
        let mut i = 0;
        let mut r = false;
        while i < self.k {
            let g = self.geo(i);
            let s = snap(self.chunk(i).header());
            if i < ci {
                r = r || (addr >= g.content_start && addr < g.content_end);
            } else if i == ci {
                if S::UP {
                    r = r || (addr >= g.content_start && addr < s.pos);
                } else {
                    r = r || (addr >= s.pos && addr < g.content_end);
                }
            }
            i += 1;
        }
        r
    }

    /// free(b): rest of the current chunk + whole content of later chunks.
    pub(crate) fn is_free(&self, addr: usize) -> bool {
        let ci = self.cur_index();
        let mut i = 0;
        let mut r = false;
        while i < self.k {
            let g = self.geo(i);
            let s = snap(self.chunk(i).header());
            if i > ci {
                r = r || (addr >= g.content_start && addr < g.content_end);
            } else if i == ci {
                if S::UP {
                    r = r || (addr >= s.pos && addr < g.content_end);
                } else {
                    r = r || (addr >= g.content_start && addr < s.pos);
                }
            }
            i += 1;
        }
        r
    }

    /// number of allocated bytes by the independent geometry
    pub(crate) fn allocated_bytes(&self) -> usize {
        let ci = self.cur_index();
        let mut i = 0;
        let mut n = 0;
        while i < self.k {
            let g = self.geo(i);
            let s = snap(self.chunk(i).header());
            if i < ci {
                n += g.content_end - g.content_start;
            } else if i == ci {
                n += if S::UP { s.pos - g.content_start } else { g.content_end - s.pos };
            }
            i += 1;
        }
        n
    }

    /// allocated bytes of the current chunk only (for states where the list was cut)
    pub(crate) fn allocated_bytes_of_current_only(&self) -> usize {
        let h = self.bump.chunk.get().header();
        let s = snap(h);
        let ci = self.cur_index();
        let g = self.geo(ci);
        if S::UP { s.pos - g.content_start } else { g.content_end - s.pos }
    }

    /// release everything (so that harnesses can also check "every grant returned exactly once")
    pub(crate) fn destroy(mut self) {
        unsafe { self.bump.manually_drop() };
    }
}

/// A symbolic layout with size <= max_size and align <= max_align (power of two).
pub(crate) fn any_layout(max_size: usize, max_align_log: u8) -> Layout {
    let size: usize = kani::any();
    kani::assume(size <= max_size);
    let al_log: u8 = kani::any();
    kani::assume(al_log <= max_align_log);
    Layout::from_size_align(size, 1usize << al_log).unwrap()
}
