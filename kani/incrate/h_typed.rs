//! Layer II: C17 (all allocation entry points are interchangeable) as relational obligations, and
//! C15 (prepare + commit of slice allocations: `prepare_slice_allocation(_rev)`,
//! `allocate_prepared_slice(_rev)`, `BumpScope::allocate_prepared(_rev)`).
//!
//! Relational scheme: from one arbitrary well-formed state run entry point A, record
//! (result address, new position, current chunk), restore the header snapshot, run entry point B,
//! compare.  The base allocator refuses new chunks, so restoring the positions restores the state.
use core::{alloc::Layout, mem::MaybeUninit, ptr::NonNull};

use super::{h_arena::*, spec::*, state::*};
use crate::{
    BumpScope, WithoutDealloc, WithoutShrink,
    alloc::{AllocError, Allocator},
    polyfill::{transmute_mut, transmute_ref},
    settings::BumpAllocatorSettings,
    traits::{BumpAllocatorCore, BumpAllocatorTyped, BumpAllocatorTypedScope},
};

#[derive(Clone, Copy, PartialEq, Eq)]
pub(crate) struct Outcome {
    ok: bool,
    addr: usize,
    cur: usize,
    pos: usize,
}

fn outcome<A, S>(a: &Arena<A, S>, r: Option<usize>) -> Outcome
where
    A: crate::BaseAllocator<S::GuaranteedAllocated> + Default,
    S: BumpAllocatorSettings,
{
    let ci = a.cur_index();
    Outcome { ok: r.is_some(), addr: r.unwrap_or(0), cur: ci, pos: a.snaps()[if ci < a.k { ci } else { 0 }].pos }
}

fn restore<A, S>(a: &Arena<A, S>, cur: usize, snaps: &[HeaderSnap; 3])
where
    A: crate::BaseAllocator<S::GuaranteedAllocated> + Default,
    S: BumpAllocatorSettings,
{
    let mut i = 0;
    while i < a.k {
        unsafe { a.chunk(i).set_pos_addr(snaps[i].pos) };
        i += 1;
    }
    a.bump.chunk.set(*a.chunk(cur));
}

/// One relational obligation: the entry point `which` against the generic layout path `RawBump::alloc`
/// (the function every other entry point is compared with), from the same arbitrary state.
pub(crate) fn ob_entry_pair<A, S>(k: usize, hint: usize, which: u8)
where
    A: crate::BaseAllocator<S::GuaranteedAllocated> + Default,
    S: BumpAllocatorSettings,
{
    type T = [u16; 3]; // size 6, align 2: not a multiple of 4/8/16, alignment below most MIN_ALIGNs
    let mut a = Arena::<A, S>::build(k, hint);
    a.havoc();
    let c0 = a.cur;
    let s0 = a.snaps();
    unsafe { BUDGET = 0 };
    let n: usize = kani::any();
    kani::assume(n <= 5);
    let any_l = any_layout(24, 4);
    let val: u32 = kani::any();
    let src = [kani::any::<u16>(), kani::any::<u16>(), kani::any::<u16>()];
    // the layout this entry point is expected to request
    let layout = match which {
        0 | 1 | 2 => Layout::new::<T>(),
        3 | 4 => Layout::array::<u32>(n).unwrap(),
        12 | 13 => Layout::new::<u32>(),
        14 => Layout::array::<u16>(3).unwrap(),
        _ => any_l,
    };
    let base = outcome(&a, a.bump.alloc::<AllocError>(layout).ok().map(|p| p.as_ptr() as usize));
    restore(&a, c0, &s0);
    let scope: &BumpScope<'_, A, S> = unsafe { transmute_ref(&a.bump) };
    let d: &dyn BumpAllocatorCore = scope;
    let proto = [0u32; 5];
    let other = match which {
        0 => a.bump.alloc_sized::<AllocError, T>().ok().map(|p| p.as_ptr() as usize),
        1 => crate::allocator_impl::allocate(&a.bump, layout).ok().map(|p| p.as_ptr() as *mut u8 as usize),
        2 => scope.try_allocate_sized::<T>().ok().map(|p| p.as_ptr() as usize),
        3 => a.bump.alloc_slice::<AllocError, u32>(n).ok().map(|p| p.as_ptr() as usize),
        4 => a.bump.alloc_slice_for::<AllocError, u32>(&proto[..n]).ok().map(|p| p.as_ptr() as usize),
        5 => Allocator::allocate(scope, layout).ok().map(|p| p.as_ptr() as *mut u8 as usize),
        6 => Allocator::allocate(&scope, layout).ok().map(|p| p.as_ptr() as *mut u8 as usize),
        7 => WithoutDealloc(scope).allocate(layout).ok().map(|p| p.as_ptr() as *mut u8 as usize),
        8 => WithoutShrink(WithoutDealloc(scope)).allocate(layout).ok().map(|p| p.as_ptr() as *mut u8 as usize),
        9 => d.allocate(layout).ok().map(|p| p.as_ptr() as *mut u8 as usize),
        10 => scope.try_allocate_layout(layout).ok().map(|p| p.as_ptr() as usize),
        11 => d.try_allocate_layout(layout).ok().map(|p| p.as_ptr() as usize),
        12 => match scope.try_alloc(val) {
            Ok(b) => {
                let p = crate::BumpBox::into_raw(b);
                kani::assert(unsafe { *p.as_ptr() } == val, "C17.try_alloc.value_stored");
                Some(p.as_ptr() as usize)
            }
            Err(_) => None,
        },
        13 => {
            // the panicking twin, when memory is available
            if base.ok {
                let p = crate::BumpBox::into_raw(scope.alloc(val));
                kani::assert(unsafe { *p.as_ptr() } == val, "C17.alloc.value_stored");
                Some(p.as_ptr() as usize)
            } else {
                None
            }
        }
        _ => match scope.try_alloc_slice_copy(&src) {
            Ok(b) => {
                let p = crate::BumpBox::into_raw(b);
                let q = p.as_ptr() as *mut u16;
                kani::assert(p.len() == 3 && unsafe { *q == src[0] && *q.add(1) == src[1] && *q.add(2) == src[2] }, "C17.try_alloc_slice_copy.contents");
                Some(q as usize)
            }
            Err(_) => None,
        },
    };
    let o = outcome(&a, other);
    if which == 13 && !base.ok {
        restore(&a, c0, &s0);
    }
    kani::assert(base == o, "C17.entry_point_equals_layout_path");
    kani::assert(a.wf(), "C10.entry_point.wf");
    kani::cover!(base.ok, "ok");
    kani::cover!(!base.ok, "does-not-fit");
}

/// The inherent formatting entry points of `BumpScope` (generated by `forward_methods!`) against the trait methods they
/// are documented to forward to: same block, same position, same text (C17).  `mutable`: `try_alloc_fmt_mut` against
/// `MutBumpAllocatorTypedScope::try_alloc_fmt_mut`, otherwise `try_alloc_fmt` against `BumpAllocatorTypedScope::try_alloc_fmt`.
pub(crate) fn ob_fmt_pair<A, S>(k: usize, hint: usize, mutable: bool)
where
    A: crate::BaseAllocator<S::GuaranteedAllocated> + Default,
    S: BumpAllocatorSettings,
{
    let mut a = Arena::<A, S>::build(k, hint);
    a.havoc();
    let c0 = a.cur;
    let s0 = a.snaps();
    unsafe { BUDGET = 0 };
    let bytes = [b'a' + (kani::any::<u8>() & 7), b'k' + (kani::any::<u8>() & 3), b'x'];
    let text: &str = unsafe { core::str::from_utf8_unchecked(&bytes) };
    let scope: &mut BumpScope<'_, A, S> = unsafe { transmute_mut(&mut a.bump) };
    let r1 = if mutable { scope.try_alloc_fmt_mut(format_args!("{}", text)) } else { scope.try_alloc_fmt(format_args!("{}", text)) };
    let first = match r1 {
        Ok(b) => {
            kani::assert(b.len() == 3 && b.as_bytes()[0] == bytes[0] && b.as_bytes()[1] == bytes[1] && b.as_bytes()[2] == bytes[2], "C17.alloc_fmt.text");
            Some(crate::BumpBox::into_raw(b).as_ptr() as *mut u8 as usize)
        }
        Err(_) => None,
    };
    let base = outcome(&a, first);
    restore(&a, c0, &s0);
    let scope: &mut BumpScope<'_, A, S> = unsafe { transmute_mut(&mut a.bump) };
    let r2 = if mutable {
        crate::traits::MutBumpAllocatorTypedScope::try_alloc_fmt_mut(scope, format_args!("{}", text))
    } else {
        BumpAllocatorTypedScope::try_alloc_fmt(scope, format_args!("{}", text))
    };
    let second = r2.ok().map(|b| crate::BumpBox::into_raw(b).as_ptr() as *mut u8 as usize);
    let o = outcome(&a, second);
    kani::assert(base == o, "C17.inherent_fmt_entry_point_equals_the_trait_method");
    kani::assert(a.wf(), "C10.alloc_fmt.wf");
    kani::cover!(base.ok, "ok");
}

/// C15: prepare + fill + commit of a slice, forward and reverse, through the typed trait methods.
pub(crate) fn ob_prepared_slice<A, S>(k: usize, hint: usize, rev: bool)
where
    A: crate::BaseAllocator<S::GuaranteedAllocated> + Default,
    S: BumpAllocatorSettings,
{
    ob_prepared_slice_via::<A, S>(k, hint, rev, false);
}

/// The same contract through the trait-object interface (`dyn BumpAllocatorCore`): the typed methods of the trait
/// object go through the GENERIC `prepare_allocation` / `allocate_prepared(_rev)` of `BumpScope`, the typed methods
/// of `BumpScope` have their own fast-path implementation.  Both satisfy the same functional postcondition (C17).
pub(crate) fn ob_prepared_slice_dyn<A, S>(k: usize, hint: usize, rev: bool)
where
    A: crate::BaseAllocator<S::GuaranteedAllocated> + Default,
    S: BumpAllocatorSettings,
{
    ob_prepared_slice_via::<A, S>(k, hint, rev, true);
}

pub(crate) fn ob_prepared_slice_via<A, S>(k: usize, hint: usize, rev: bool, via_dyn: bool)
where
    A: crate::BaseAllocator<S::GuaranteedAllocated> + Default,
    S: BumpAllocatorSettings,
{
    type T = u16;
    const SZ: usize = 2;
    let mut a = Arena::<A, S>::build(k, hint);
    a.havoc();
    let ci = a.cur;
    let s0 = a.snaps();
    let g = a.geo(ci);
    let pos0 = s0[ci].pos;
    let (free_lo, free_hi) = if S::UP { (pos0, g.content_end) } else { (g.content_start, pos0) };
    unsafe { BUDGET = 0 };
    let scope: &BumpScope<'_, A, S> = unsafe { transmute_ref(&a.bump) };
    let want: usize = kani::any();
    kani::assume(want >= 1 && want <= 3);
    let vals = [kani::any::<T>(), kani::any::<T>(), kani::any::<T>()];
    let (mut cov_full, mut cov_partial, mut cov_fail) = (false, false, false);
    if !rev {
        let dy: &dyn BumpAllocatorCore = scope;
        let r = if via_dyn { dy.try_prepare_slice_allocation::<T>(want) } else { scope.try_prepare_slice_allocation::<T>(want) };
        if a.cur_index() == ci {
            kani::assert(same_headers(k, &s0, &a.snaps()), "C15.prepare_slice.moves_no_position");
        }
        if let Ok(slice) = r {
            if a.cur_index() != ci {
                return; // filling continued in a later (still empty) chunk: covered by the slow-path obligations
            }
            let ptr = slice.cast::<T>();
            let cap = slice.len();
            kani::assert(cap >= want, "C15.prepare_slice.capacity_at_least_requested");
            kani::assert(ptr.as_ptr() as usize >= free_lo && ptr.as_ptr() as usize + cap * SZ <= free_hi, "C01.prepare_slice.inside_free_range");
            let len: usize = kani::any();
            kani::assume(len <= want);
            let mut i = 0;
            while i < len {
                unsafe { ptr.as_ptr().add(i).write(vals[i]) };
                i += 1;
            }
            kani::assert(same_headers(k, &s0, &a.snaps()), "C15.filling.moves_no_position");
            let out = unsafe { if via_dyn { dy.allocate_prepared_slice::<T>(ptr, len, cap) } else { scope.allocate_prepared_slice::<T>(ptr, len, cap) } };
            let oa = out.as_ptr() as *mut T as usize;
            kani::assert(out.len() == len, "C15.commit.exact_length");
            let j: usize = kani::any();
            kani::assume(j < len || len == 0);
            if len > 0 {
                kani::assert(unsafe { *(out.as_ptr() as *mut T).add(j) } == vals[j], "C15.commit.exactly_the_pushed_elements");
            }
            let pos1 = a.snaps()[ci].pos;
            kani::assert(a.cur_index() == ci && al(pos1, S::MIN_ALIGN), "C10.commit.position_aligned");
            kani::assert(oa >= free_lo && oa + len * SZ <= free_hi && al(oa, 2), "C01.commit.block_inside_prepared_range");
            let pad_bound = if S::MIN_ALIGN > 2 { S::MIN_ALIGN } else { 2 };
            if S::UP {
                kani::assert(oa == ptr.as_ptr() as usize, "C15.commit.up_block_at_range_start");
                kani::assert(is_up((oa + len * SZ) as u128, S::MIN_ALIGN as u128, pos1 as u128), "C15.commit.position_just_past_block");
                kani::assert(pos1 - pos0 < len * SZ + pad_bound + 2, "C15.commit.advance_is_size_plus_padding");
            } else {
                kani::assert(oa + len * SZ == ptr.as_ptr() as usize + cap * SZ, "C15.commit.down_block_at_range_end");
                kani::assert(is_down(oa as u128, S::MIN_ALIGN as u128, pos1 as u128), "C15.commit.position_at_block_start");
                kani::assert(pos0 - pos1 < len * SZ + pad_bound + 2, "C15.commit.advance_is_size_plus_padding");
            }
            kani::assert(a.wf(), "C10.commit.wf");
            cov_full = len == want;
            cov_partial = len < want;
        }
        cov_fail = r.is_err();
    } else {
        let dy: &dyn BumpAllocatorCore = scope;
        let r = if via_dyn { dy.try_prepare_slice_allocation_rev::<T>(want) } else { scope.try_prepare_slice_allocation_rev::<T>(want) };
        if a.cur_index() == ci {
            kani::assert(same_headers(k, &s0, &a.snaps()), "C15.prepare_slice_rev.moves_no_position");
        }
        if let Ok((end, cap)) = r {
            if a.cur_index() != ci {
                return;
            }
            kani::assert(cap >= want, "C15.prepare_slice_rev.capacity_at_least_requested");
            kani::assert(end.as_ptr() as usize <= free_hi && end.as_ptr() as usize >= free_lo + cap * SZ, "C01.prepare_slice_rev.inside_free_range");
            let len: usize = kani::any();
            kani::assume(len <= want);
            // a reverse vector pushes towards lower addresses: element i (in final order) sits at end - len + i
            let mut i = 0;
            while i < len {
                unsafe { end.as_ptr().sub(len - i).write(vals[i]) };
                i += 1;
            }
            kani::assert(same_headers(k, &s0, &a.snaps()), "C15.filling_rev.moves_no_position");
            let out = unsafe { if via_dyn { dy.allocate_prepared_slice_rev::<T>(end, len, cap) } else { scope.allocate_prepared_slice_rev::<T>(end, len, cap) } };
            let oa = out.as_ptr() as *mut T as usize;
            kani::assert(out.len() == len, "C15.commit_rev.exact_length");
            let j: usize = kani::any();
            kani::assume(j < len || len == 0);
            if len > 0 {
                kani::assert(unsafe { *(out.as_ptr() as *mut T).add(j) } == vals[j], "C15.commit_rev.exactly_the_pushed_elements");
            }
            let pos1 = a.snaps()[ci].pos;
            kani::assert(a.cur_index() == ci && al(pos1, S::MIN_ALIGN), "C10.commit_rev.position_aligned");
            kani::assert(oa >= free_lo && oa + len * SZ <= free_hi && al(oa, 2), "C01.commit_rev.block_inside_prepared_range");
            if S::UP {
                kani::assert(oa + cap * SZ == end.as_ptr() as usize, "C15.commit_rev.up_block_at_range_start");
                kani::assert(is_up((oa + len * SZ) as u128, S::MIN_ALIGN as u128, pos1 as u128), "C15.commit_rev.position_just_past_block");
            } else {
                kani::assert(oa + len * SZ == end.as_ptr() as usize, "C15.commit_rev.down_block_at_range_end");
                kani::assert(is_down(oa as u128, S::MIN_ALIGN as u128, pos1 as u128), "C15.commit_rev.position_at_block_start");
            }
            kani::assert(a.wf(), "C10.commit_rev.wf");
            cov_full = len == want;
            cov_partial = len < want;
        }
        cov_fail = r.is_err();
    }
    kani::cover!(cov_full, "full");
    kani::cover!(cov_partial, "partial");
    kani::cover!(cov_fail, "prepare-fails");
}

/// C15 on the collection level: `MutBumpVec` / `MutBumpVecRev` over `&mut BumpScope`: pushing never moves
/// the bump position, dropping an unfinalised vector leaves it where it was, `into_slice` yields exactly the
/// pushed elements (for the rev variant: last pushed first) and advances by the contents plus padding.
pub(crate) fn ob_mut_vec<A, S>(k: usize, hint: usize, rev: bool)
where
    A: crate::BaseAllocator<S::GuaranteedAllocated> + Default,
    S: BumpAllocatorSettings,
{
    let mut a = Arena::<A, S>::build(k, hint);
    a.havoc();
    let ci = a.cur;
    let s0 = a.snaps();
    let pos0 = s0[ci].pos;
    let g = a.geo(ci);
    unsafe { BUDGET = 0 };
    let n: usize = kani::any();
    kani::assume(n <= 3);
    let vals = [kani::any::<u16>(), kani::any::<u16>(), kani::any::<u16>()];
    let finalise: bool = kani::any();
    let scope: &mut BumpScope<'_, A, S> = unsafe { transmute_mut(&mut a.bump) };
    let mut pushed = 0usize;
    let mut out_addr = 0usize;
    let mut out_len = 0usize;
    let mut ok_contents = true;
    if !rev {
        let mut v = crate::MutBumpVec::<u16, _>::new_in(&mut *scope);
        let mut i = 0;
        while i < n {
            if v.try_push(vals[i]).is_ok() {
                pushed += 1;
            }
            i += 1;
        }
        kani::assert(v.len() == pushed && v.capacity() >= v.len(), "C08.mut_vec.len_and_capacity");
        if finalise {
            let sl = v.into_slice();
            out_addr = sl.as_ptr() as usize;
            out_len = sl.len();
            let j: usize = kani::any();
            kani::assume(j < out_len);
            ok_contents = sl[j] == vals[j];
        } else {
            drop(v);
        }
    } else {
        let mut v = crate::MutBumpVecRev::<u16, _>::new_in(&mut *scope);
        let mut i = 0;
        while i < n {
            if v.try_push(vals[i]).is_ok() {
                pushed += 1;
            }
            i += 1;
        }
        kani::assert(v.len() == pushed && v.capacity() >= v.len(), "C08.mut_vec_rev.len_and_capacity");
        if finalise {
            let sl = v.into_slice();
            out_addr = sl.as_ptr() as usize;
            out_len = sl.len();
            let j: usize = kani::any();
            kani::assume(j < out_len);
            // pushing to a reverse vector prepends: final order is last pushed first
            ok_contents = sl[j] == vals[out_len - 1 - j];
        } else {
            drop(v);
        }
    }
    unsafe { BUDGET = usize::MAX };
    let pos1 = a.snaps()[ci].pos;
    kani::assert(a.cur_index() == ci, "C15.mut_vec.stays_in_chunk_when_it_fits");
    if finalise && out_len > 0 {
        kani::assert(out_len == pushed && ok_contents, "C15.mut_vec.into_slice_yields_exactly_the_pushed_elements");
        kani::assert(al(out_addr, 2) && a.is_allocated(out_addr) && a.is_allocated(out_addr + 2 * out_len - 1), "C01.mut_vec.slice_is_allocated");
        let pad_bound = if S::MIN_ALIGN > 2 { S::MIN_ALIGN } else { 2 };
        let adv = if S::UP { pos1 - pos0 } else { pos0 - pos1 };
        kani::assert(adv >= 2 * out_len && adv < 2 * out_len + pad_bound + 2, "C15.mut_vec.advance_is_contents_plus_padding");
    } else {
        kani::assert(pos1 == pos0, "C15.mut_vec.unfinalised_or_empty_moves_nothing");
    }
    kani::assert(al(pos1, S::MIN_ALIGN) && a.wf(), "C10.mut_vec.wf");
    kani::cover!(finalise && out_len == 3, "three-elements-finalised");
    kani::cover!(!finalise && pushed > 0, "dropped-unfinalised");
    kani::cover!(pushed < n, "push-failed-for-lack-of-space");
}

/// C07/C15: a growth of a `MutBumpVec` that FAILS (no chunk fits, the base allocator refuses a new one) after the
/// slow path looked at a cached later chunk leaves the vector and the arena intact: same length and contents,
/// finalising still yields the pushed bytes inside allocated memory of a well-formed arena.
pub(crate) fn ob_mut_vec_failed_grow<A, S>(hint: usize)
where
    A: crate::BaseAllocator<S::GuaranteedAllocated> + Default,
    S: BumpAllocatorSettings,
{
    let k = 2;
    let mut a = Arena::<A, S>::build(k, hint);
    a.havoc_at(0);
    let s0 = a.snaps();
    let bytes0 = a.allocated_bytes();
    unsafe { BUDGET = 0 };
    let vals = [kani::any::<u8>(), kani::any::<u8>()];
    let n: usize = kani::any();
    kani::assume(n >= 1 && n <= 2);
    let add: usize = kani::any();
    kani::assume(add <= 400);
    let raw_view: *const crate::raw_bump::RawBump<A, S> = &a.bump;
    let scope: &mut BumpScope<'_, A, S> = unsafe { transmute_mut(&mut a.bump) };
    let mut v = crate::MutBumpVec::<u8, _>::new_in(&mut *scope);
    let mut pushed = 0;
    let mut i = 0;
    while i < n {
        if v.try_push(vals[i]).is_ok() {
            pushed += 1;
        }
        i += 1;
    }
    // the pushes may legitimately have continued in the later chunk; what must not change is the chunk across a FAILED reserve
    let chunk_before_reserve = unsafe { (*raw_view).chunk.get().header().as_ptr() as usize };
    let r = v.try_reserve(add);
    let chunk_after_reserve = unsafe { (*raw_view).chunk.get().header().as_ptr() as usize };
    kani::assert(v.len() == pushed, "C07.mut_vec.failed_reserve_keeps_length");
    let j: usize = kani::any();
    kani::assume(j < pushed);
    if pushed > 0 {
        kani::assert(v[j] == vals[j], "C07.mut_vec.failed_reserve_keeps_contents");
    }
    let failed = r.is_err();
    let sl = v.into_slice();
    let (sa, sn) = (sl.as_ptr() as usize, sl.len());
    if pushed > 0 {
        kani::assert(sn == pushed && sl[j] == vals[j], "C15.mut_vec.into_slice_after_failed_reserve_yields_the_elements");
    }
    unsafe { BUDGET = usize::MAX };
    kani::assert(a.wf(), "C07.mut_vec.failed_reserve_keeps_invariant");
    if sn > 0 {
        kani::assert(a.is_allocated(sa) && a.is_allocated(sa + sn - 1), "C01.mut_vec.slice_is_allocated");
    }
    if failed {
        kani::assert(chunk_after_reserve == chunk_before_reserve, "C07.mut_vec.failed_reserve_leaves_current_chunk");
        kani::assert(a.allocated_bytes() >= bytes0 + sn && a.allocated_bytes() < bytes0 + sn + 16, "C07.mut_vec.allocated_bytes_account_for_the_slice");
    }
    kani::cover!(failed && pushed > 0, "reserve-failed-with-contents");
    kani::cover!(!failed && add > 20, "reserve-succeeded-in-later-chunk");
}

type SUp1 = St<1, true, true, true, true>;
type SDn1 = St<1, false, true, true, true>;
type SUp8 = St<8, true, true, true, true>;
type SDn8 = St<8, false, true, true, true>;
type SUp4 = St<4, true, true, true, true>;
type SDn16 = St<16, false, true, true, true>;
type SDn4 = St<4, false, true, true, true>;
type SUp1NoDe = St<1, true, true, false, true>;

/// `BumpAllocatorTyped::dealloc(BumpBox)` (C13): through the plain scope the newest box is reclaimed (same address
/// again), through `WithoutDealloc` - at any nesting depth, the provided method included - the allocated byte count
/// never changes; through `WithoutShrink` alone deallocation still reclaims.
pub(crate) fn ob_typed_dealloc<A, S>(k: usize, hint: usize, wrapper: u8)
where
    A: crate::BaseAllocator<S::GuaranteedAllocated> + Default,
    S: BumpAllocatorSettings,
{
    let mut a = Arena::<A, S>::build(k, hint);
    a.havoc();
    unsafe { BUDGET = 0 };
    let scope: &BumpScope<'_, A, S> = unsafe { transmute_ref(&a.bump) };
    let x: u32 = kani::any();
    let Ok(b) = scope.try_alloc(x) else {
        return;
    };
    let addr = &*b as *const u32 as usize;
    let ci = a.cur_index();
    let pos1 = a.snaps()[ci].pos;
    let bytes1 = a.allocated_bytes();
    match wrapper {
        0 => BumpAllocatorTyped::dealloc(scope, b),
        1 => BumpAllocatorTyped::dealloc(&WithoutDealloc(scope), b),
        2 => BumpAllocatorTyped::dealloc(&WithoutDealloc(WithoutShrink(scope)), b),
        3 => BumpAllocatorTyped::dealloc(&WithoutShrink(WithoutDealloc(scope)), b),
        4 => BumpAllocatorTyped::dealloc(&&WithoutDealloc(scope), b),
        _ => BumpAllocatorTyped::dealloc(&WithoutShrink(scope), b),
    }
    let reclaiming = (wrapper == 0 || wrapper > 4) && S::DEALLOCATES;
    if reclaiming {
        // 4 is a multiple of the minimum alignments instantiated here (1, 4)
        kani::assert(a.allocated_bytes() + 4 <= bytes1, "C13.typed_dealloc.newest_box_is_reclaimed");
        let again = scope.try_alloc(x);
        kani::assert(matches!(&again, Ok(bb) if &**bb as *const u32 as usize == addr), "C13.typed_dealloc.same_layout_again_gets_the_same_address");
    } else {
        kani::assert(a.allocated_bytes() == bytes1 && a.snaps()[ci].pos == pos1 && a.cur_index() == ci, "C13.typed_dealloc.opt_out_never_changes_the_allocated_bytes");
    }
    unsafe { BUDGET = usize::MAX };
    kani::assert(a.wf(), "C10.typed_dealloc.wf");
    kani::cover!(true, "deallocated-a-box");
}

inst!(ep_alloc_sized, unwind 3, ob_entry_pair, LogAlloc, SUp1, 1, 128, 0);
inst!(ep_allocator_impl_allocate, unwind 3, ob_entry_pair, LogAlloc, SDn8, 1, 128, 1);
inst!(ep_try_allocate_sized, unwind 3, ob_entry_pair, LogAlloc, SUp1, 1, 128, 2);
inst!(ep_alloc_slice, unwind 3, ob_entry_pair, LogAlloc, SDn8, 1, 128, 3);
inst!(ep_alloc_slice_for, unwind 3, ob_entry_pair, LogAlloc, SUp1, 1, 128, 4);
inst!(ep_scope_allocate, unwind 3, ob_entry_pair, LogAlloc, SDn8, 1, 128, 5);
inst!(ep_ref_scope_allocate, unwind 3, ob_entry_pair, LogAlloc, SUp1, 1, 128, 6);
inst!(ep_without_dealloc, unwind 3, ob_entry_pair, LogAlloc, SDn8, 1, 128, 7);
inst!(ep_nested_wrappers, unwind 3, ob_entry_pair, LogAlloc, SUp1, 1, 128, 8);
inst!(ep_dyn_core, unwind 3, ob_entry_pair, LogAlloc, SDn8, 1, 128, 9);
inst!(ep_try_allocate_layout, unwind 3, ob_entry_pair, LogAlloc, SUp1, 1, 128, 10);
inst!(ep_dyn_try_allocate_layout, unwind 3, ob_entry_pair, LogAlloc, SDn8, 1, 128, 11);
inst!(ep_try_alloc_value, unwind 3, ob_entry_pair, LogAlloc, SUp1, 1, 128, 12);
inst!(ep_alloc_value_panicking_twin, unwind 3, ob_entry_pair, LogAlloc, SDn8, 1, 128, 13);
inst!(ep_try_alloc_slice_copy, unwind 3, ob_entry_pair, LogAlloc, SUp1, 1, 128, 14);
inst!(ep_alloc_sized_dn16, unwind 3, ob_entry_pair, LogAlloc, SDn16, 1, 128, 0);
inst!(ep_alloc_slice_up4, unwind 3, ob_entry_pair, LogAlloc<u64>, SUp4, 1, 128, 3);
inst!(ep_alloc_sized_up8_k2, unwind 4, ob_entry_pair, LogAlloc, SUp8, 2, 64, 0);

// not registered: core::fmt through CBMC exhausts memory (14 GB) - see DESIGN 10.5, seed C17b
inst!(exp_fmt_pair_mut_dn8, unwind 6, ob_fmt_pair, LogAlloc, SDn8, 1, 128, true);
inst!(exp_fmt_pair_up4, unwind 6, ob_fmt_pair, LogAlloc, SUp4, 1, 128, false);
inst!(typed_dealloc_plain_up1, unwind 3, ob_typed_dealloc, LogAlloc, SUp1, 1, 128, 0);
inst!(typed_dealloc_plain_dn4, unwind 3, ob_typed_dealloc, LogAlloc, SDn4, 1, 128, 0);
inst!(typed_dealloc_without_dealloc_up1, unwind 3, ob_typed_dealloc, LogAlloc, SUp1, 1, 128, 1);
inst!(typed_dealloc_without_dealloc_dn4, unwind 3, ob_typed_dealloc, LogAlloc, SDn4, 1, 128, 1);
inst!(typed_dealloc_without_dealloc_outer_up1, unwind 3, ob_typed_dealloc, LogAlloc, SUp1, 1, 128, 2);
inst!(typed_dealloc_without_dealloc_inner_dn4, unwind 3, ob_typed_dealloc, LogAlloc, SDn4, 1, 128, 3);
inst!(typed_dealloc_ref_without_dealloc_up1, unwind 3, ob_typed_dealloc, LogAlloc, SUp1, 1, 128, 4);
inst!(typed_dealloc_without_shrink_dn4, unwind 3, ob_typed_dealloc, LogAlloc, SDn4, 1, 128, 5);
inst!(typed_dealloc_nodealloc_setting_up1, unwind 3, ob_typed_dealloc, LogAlloc, SUp1NoDe, 1, 128, 0);

inst!(mut_vec_up1, unwind 5, ob_mut_vec, LogAlloc, SUp1, 1, 64, false);
inst!(mut_vec_dn8, unwind 5, ob_mut_vec, LogAlloc, SDn8, 1, 64, false);
inst!(mut_vec_rev_up8, unwind 5, ob_mut_vec, LogAlloc, SUp8, 1, 64, true);
inst!(mut_vec_rev_dn1, unwind 5, ob_mut_vec, LogAlloc, SDn1, 1, 64, true);

#[kani::proof]
#[kani::unwind(5)]
pub(crate) fn mut_vec_failed_grow_up1() {
    ob_mut_vec_failed_grow::<LogAlloc, SUp1>(64);
}
#[kani::proof]
#[kani::unwind(5)]
pub(crate) fn mut_vec_failed_grow_dn8() {
    ob_mut_vec_failed_grow::<LogAlloc, SDn8>(64);
}

inst!(prepared_slice_dyn_up1, unwind 5, ob_prepared_slice_dyn, LogAlloc, SUp1, 1, 64, false);
inst!(prepared_slice_dyn_dn8, unwind 5, ob_prepared_slice_dyn, LogAlloc, SDn8, 1, 64, false);
inst!(prepared_slice_rev_dyn_up8, unwind 5, ob_prepared_slice_dyn, LogAlloc, SUp8, 1, 64, true);
inst!(prepared_slice_rev_dyn_dn1, unwind 5, ob_prepared_slice_dyn, LogAlloc, SDn1, 1, 64, true);
inst!(prepared_slice_up1, unwind 5, ob_prepared_slice, LogAlloc, SUp1, 1, 64, false);
inst!(prepared_slice_dn1, unwind 5, ob_prepared_slice, LogAlloc, SDn1, 1, 64, false);
inst!(prepared_slice_dn8, unwind 5, ob_prepared_slice, LogAlloc, SDn8, 1, 64, false);
inst!(prepared_slice_rev_up8, unwind 5, ob_prepared_slice, LogAlloc, SUp8, 1, 64, true);
inst!(prepared_slice_rev_up1, unwind 5, ob_prepared_slice, LogAlloc, SUp1, 1, 64, true);
inst!(prepared_slice_rev_dn1, unwind 5, ob_prepared_slice, LogAlloc, SDn1, 1, 64, true);
