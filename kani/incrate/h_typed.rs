//! Layer II: C17 (all allocation entry points are interchangeable) as relational obligations, and
//! C15 (prepare + commit of slice allocations: `prepare_slice_allocation(_rev)`,
//! `allocate_prepared_slice(_rev)`, `BumpScope::allocate_prepared(_rev)`).
//!
//! Relational scheme: from one arbitrary well-formed state run entry point A, record
//! (result address, new position, current chunk), restore the header snapshot, run entry point B,
//! compare.  The base allocator refuses new chunks, so restoring the positions restores the state.
use core::{alloc::Layout, mem::MaybeUninit, ptr::NonNull};

use super::{h_arena::*, spec::*, state::*};
use crate::{
    BumpScope, WithoutDealloc, WithoutShrink,
    alloc::{AllocError, Allocator},
    polyfill::{transmute_mut, transmute_ref},
    settings::BumpAllocatorSettings,
    traits::{BumpAllocatorCore, BumpAllocatorTyped, BumpAllocatorTypedScope},
};

#[derive(Clone, Copy, PartialEq, Eq)]
pub(crate) struct Outcome {
    ok: bool,
    addr: usize,
    cur: usize,
    pos: usize,
}

fn outcome<A, S>(a: &Arena<A, S>, r: Option<usize>) -> Outcome
where
    A: crate::BaseAllocator<S::GuaranteedAllocated> + Default,
    S: BumpAllocatorSettings,
{
    let ci = a.cur_index();
    Outcome { ok: r.is_some(), addr: r.unwrap_or(0), cur: ci, pos: a.snaps()[if ci < a.k { ci } else { 0 }].pos }
}

fn restore<A, S>(a: &Arena<A, S>, cur: usize, snaps: &[HeaderSnap; 3])
where
    A: crate::BaseAllocator<S::GuaranteedAllocated> + Default,
    S: BumpAllocatorSettings,
{
    let mut i = 0;
    while i < a.k {
        unsafe { a.chunk(i).set_pos_addr(snaps[i].pos) };
        i += 1;
    }
    a.bump.chunk.set(*a.chunk(cur));
}

/// Typed fast paths vs. the generic layout path on `RawBump` (the functions every public method funnels into).
pub(crate) fn ob_raw_entry_points<A, S>(k: usize, hint: usize)
where
    A: crate::BaseAllocator<S::GuaranteedAllocated> + Default,
    S: BumpAllocatorSettings,
{
    let mut a = Arena::<A, S>::build(k, hint);
    a.havoc();
    let c0 = a.cur;
    let s0 = a.snaps();
    unsafe { BUDGET = 0 };
    // sized value: [u16; 3]  (size 6, align 2: size not a multiple of 4/8/16, alignment below most MIN_ALIGNs)
    type T = [u16; 3];
    let o1 = outcome(&a, a.bump.alloc::<AllocError>(Layout::new::<T>()).ok().map(|p| p.as_ptr() as usize));
    restore(&a, c0, &s0);
    let o2 = outcome(&a, a.bump.alloc_sized::<AllocError, T>().ok().map(|p| p.as_ptr() as usize));
    restore(&a, c0, &s0);
    let o3 = outcome(&a, crate::allocator_impl::allocate(&a.bump, Layout::new::<T>()).ok().map(|p| p.as_ptr() as *mut u8 as usize));
    restore(&a, c0, &s0);
    kani::assert(o1 == o2, "C17.alloc_sized_equals_layout_path");
    kani::assert(o1 == o3, "C17.allocator_allocate_equals_layout_path");
    // slice: u32 x n
    let n: usize = kani::any();
    kani::assume(n <= 6);
    let p1 = outcome(&a, a.bump.alloc::<AllocError>(Layout::array::<u32>(n).unwrap()).ok().map(|p| p.as_ptr() as usize));
    restore(&a, c0, &s0);
    let p2 = outcome(&a, a.bump.alloc_slice::<AllocError, u32>(n).ok().map(|p| p.as_ptr() as usize));
    restore(&a, c0, &s0);
    let proto = [0u32; 6];
    let p3 = outcome(&a, a.bump.alloc_slice_for::<AllocError, u32>(&proto[..n]).ok().map(|p| p.as_ptr() as usize));
    restore(&a, c0, &s0);
    kani::assert(p1 == p2, "C17.alloc_slice_equals_layout_path");
    kani::assert(p1 == p3, "C17.alloc_slice_for_equals_layout_path");
    // prepare (no commit): typed prepare vs layout prepare give the same start
    let q1 = a.bump.chunk.get().prepare_allocation(crate::layout::CustomLayout(Layout::new::<T>())).map(|p| p.as_ptr() as usize);
    let q2 = a.bump.prepare_sized_allocation::<AllocError, T>().ok().map(|p| p.as_ptr() as usize);
    if q1.is_some() {
        kani::assert(q1 == q2, "C17.prepare_sized_equals_layout_path");
    }
    restore(&a, c0, &s0);
    kani::cover!(o1.ok && o1.cur == c0, "sized-fast-path");
    kani::cover!(o1.ok && o1.cur != c0 || k == 1, "sized-other-chunk");
    kani::cover!(!o1.ok, "sized-fails");
    kani::cover!(p1.ok && n > 0, "slice-ok");
}

/// Public entry points: BumpScope vs &BumpScope vs &mut vs WithoutDealloc / WithoutShrink vs `dyn BumpAllocatorCore`,
/// typed `try_alloc*` methods vs the allocator interface, panicking twin vs `try_` twin.
pub(crate) fn ob_public_entry_points<A, S>(k: usize, hint: usize)
where
    A: crate::BaseAllocator<S::GuaranteedAllocated> + Default,
    S: BumpAllocatorSettings,
{
    let mut a = Arena::<A, S>::build(k, hint);
    a.havoc();
    let c0 = a.cur;
    let s0 = a.snaps();
    unsafe { BUDGET = 0 };
    let layout = any_layout(24, 4);
    let scope: &BumpScope<'_, A, S> = unsafe { transmute_ref(&a.bump) };
    let base = outcome(&a, crate::allocator_impl::allocate(&a.bump, layout).ok().map(|p| p.as_ptr() as *mut u8 as usize));
    restore(&a, c0, &s0);
    let v1 = outcome(&a, Allocator::allocate(scope, layout).ok().map(|p| p.as_ptr() as *mut u8 as usize));
    restore(&a, c0, &s0);
    let v2 = outcome(&a, Allocator::allocate(&scope, layout).ok().map(|p| p.as_ptr() as *mut u8 as usize));
    restore(&a, c0, &s0);
    let v3 = outcome(&a, WithoutDealloc(scope).allocate(layout).ok().map(|p| p.as_ptr() as *mut u8 as usize));
    restore(&a, c0, &s0);
    let v4 = outcome(&a, WithoutShrink(WithoutDealloc(scope)).allocate(layout).ok().map(|p| p.as_ptr() as *mut u8 as usize));
    restore(&a, c0, &s0);
    let d: &dyn BumpAllocatorCore = scope;
    let v5 = outcome(&a, d.allocate(layout).ok().map(|p| p.as_ptr() as *mut u8 as usize));
    restore(&a, c0, &s0);
    let v6 = outcome(&a, scope.try_allocate_layout(layout).ok().map(|p| p.as_ptr() as usize));
    restore(&a, c0, &s0);
    let v7 = outcome(&a, d.try_allocate_layout(layout).ok().map(|p| p.as_ptr() as usize));
    restore(&a, c0, &s0);
    kani::assert(base == v1, "C17.scope_allocate");
    kani::assert(base == v2, "C17.ref_scope_allocate");
    kani::assert(base == v3, "C17.without_dealloc_allocate");
    kani::assert(base == v4, "C17.nested_wrappers_allocate");
    kani::assert(base == v5, "C17.dyn_core_allocate");
    kani::assert(base == v6, "C17.typed_try_allocate_layout");
    kani::assert(base == v7, "C17.dyn_typed_try_allocate_layout");
    // typed value methods: try_alloc(v) stores v at the address the layout path yields
    let val: u32 = kani::any();
    let lb = outcome(&a, a.bump.alloc::<AllocError>(Layout::new::<u32>()).ok().map(|p| p.as_ptr() as usize));
    restore(&a, c0, &s0);
    let tb = scope.try_alloc(val);
    let t1 = match tb {
        Ok(b) => {
            let p = crate::BumpBox::into_raw(b);
            kani::assert(unsafe { *p.as_ptr() } == val, "C17.try_alloc.value_stored");
            outcome(&a, Some(p.as_ptr() as usize))
        }
        Err(_) => outcome(&a, None),
    };
    restore(&a, c0, &s0);
    kani::assert(lb == t1, "C17.try_alloc_equals_layout_path");
    // panicking twin when memory is available
    if lb.ok {
        let b = scope.alloc(val);
        let p = crate::BumpBox::into_raw(b);
        kani::assert(unsafe { *p.as_ptr() } == val, "C17.alloc.value_stored");
        let t2 = outcome(&a, Some(p.as_ptr() as usize));
        restore(&a, c0, &s0);
        kani::assert(lb == t2, "C17.alloc_equals_try_alloc");
    }
    // slices by copy
    let src = [kani::any::<u16>(), kani::any::<u16>(), kani::any::<u16>()];
    let ls = outcome(&a, a.bump.alloc::<AllocError>(Layout::array::<u16>(3).unwrap()).ok().map(|p| p.as_ptr() as usize));
    restore(&a, c0, &s0);
    let ts = scope.try_alloc_slice_copy(&src);
    let t3 = match ts {
        Ok(b) => {
            let p = crate::BumpBox::into_raw(b);
            let q = p.as_ptr() as *mut u16;
            kani::assert(p.len() == 3 && unsafe { *q == src[0] && *q.add(1) == src[1] && *q.add(2) == src[2] }, "C17.try_alloc_slice_copy.contents");
            outcome(&a, Some(q as usize))
        }
        Err(_) => outcome(&a, None),
    };
    restore(&a, c0, &s0);
    kani::assert(ls == t3, "C17.try_alloc_slice_copy_equals_layout_path");
    kani::cover!(base.ok, "allocate-ok");
    kani::cover!(!base.ok, "allocate-fails");
    kani::cover!(lb.ok, "value-ok");
}

/// C15: prepare + fill + commit of a slice, forward and reverse, through the typed trait methods.
pub(crate) fn ob_prepared_slice<A, S>(k: usize, hint: usize, rev: bool)
where
    A: crate::BaseAllocator<S::GuaranteedAllocated> + Default,
    S: BumpAllocatorSettings,
{
    type T = u16;
    const SZ: usize = 2;
    let mut a = Arena::<A, S>::build(k, hint);
    a.havoc();
    let ci = a.cur;
    let s0 = a.snaps();
    let g = a.geo(ci);
    let pos0 = s0[ci].pos;
    let (free_lo, free_hi) = if S::UP { (pos0, g.content_end) } else { (g.content_start, pos0) };
    unsafe { BUDGET = 0 };
    let scope: &BumpScope<'_, A, S> = unsafe { transmute_ref(&a.bump) };
    let want: usize = kani::any();
    kani::assume(want >= 1 && want <= 3);
    let vals = [kani::any::<T>(), kani::any::<T>(), kani::any::<T>()];
    if !rev {
        let r = scope.try_prepare_slice_allocation::<T>(want);
        if a.cur_index() == ci {
            kani::assert(same_headers(k, &s0, &a.snaps()), "C15.prepare_slice.moves_no_position");
        }
        if let Ok(slice) = r {
            if a.cur_index() != ci {
                return; // filling continued in a later (still empty) chunk: covered by the slow-path obligations
            }
            let ptr = slice.cast::<T>();
            let cap = slice.len();
            kani::assert(cap >= want, "C15.prepare_slice.capacity_at_least_requested");
            kani::assert(ptr.as_ptr() as usize >= free_lo && ptr.as_ptr() as usize + cap * SZ <= free_hi, "C01.prepare_slice.inside_free_range");
            let len: usize = kani::any();
            kani::assume(len <= want);
            let mut i = 0;
            while i < len {
                unsafe { ptr.as_ptr().add(i).write(vals[i]) };
                i += 1;
            }
            kani::assert(same_headers(k, &s0, &a.snaps()), "C15.filling.moves_no_position");
            let out = unsafe { scope.allocate_prepared_slice::<T>(ptr, len, cap) };
            let oa = out.as_ptr() as *mut T as usize;
            kani::assert(out.len() == len, "C15.commit.exact_length");
            let j: usize = kani::any();
            kani::assume(j < len || len == 0);
            if len > 0 {
                kani::assert(unsafe { *(out.as_ptr() as *mut T).add(j) } == vals[j], "C15.commit.exactly_the_pushed_elements");
            }
            let pos1 = a.snaps()[ci].pos;
            kani::assert(a.cur_index() == ci && al(pos1, S::MIN_ALIGN), "C10.commit.position_aligned");
            kani::assert(oa >= free_lo && oa + len * SZ <= free_hi && al(oa, 2), "C01.commit.block_inside_prepared_range");
            let pad_bound = if S::MIN_ALIGN > 2 { S::MIN_ALIGN } else { 2 };
            if S::UP {
                kani::assert(oa == ptr.as_ptr() as usize, "C15.commit.up_block_at_range_start");
                kani::assert(is_up((oa + len * SZ) as u128, S::MIN_ALIGN as u128, pos1 as u128), "C15.commit.position_just_past_block");
                kani::assert(pos1 - pos0 < len * SZ + pad_bound + 2, "C15.commit.advance_is_size_plus_padding");
            } else {
                kani::assert(oa + len * SZ == ptr.as_ptr() as usize + cap * SZ, "C15.commit.down_block_at_range_end");
                kani::assert(is_down(oa as u128, S::MIN_ALIGN as u128, pos1 as u128), "C15.commit.position_at_block_start");
                kani::assert(pos0 - pos1 < len * SZ + pad_bound + 2, "C15.commit.advance_is_size_plus_padding");
            }
            kani::assert(a.wf(), "C10.commit.wf");
            kani::cover!(len == want, "full");
            kani::cover!(len < want, "partial");
        }
        kani::cover!(r.is_err(), "prepare-fails");
    } else {
        let r = scope.try_prepare_slice_allocation_rev::<T>(want);
        if a.cur_index() == ci {
            kani::assert(same_headers(k, &s0, &a.snaps()), "C15.prepare_slice_rev.moves_no_position");
        }
        if let Ok((end, cap)) = r {
            if a.cur_index() != ci {
                return;
            }
            kani::assert(cap >= want, "C15.prepare_slice_rev.capacity_at_least_requested");
            kani::assert(end.as_ptr() as usize <= free_hi && end.as_ptr() as usize >= free_lo + cap * SZ, "C01.prepare_slice_rev.inside_free_range");
            let len: usize = kani::any();
            kani::assume(len <= want);
            // a reverse vector pushes towards lower addresses: element i (in final order) sits at end - len + i
            let mut i = 0;
            while i < len {
                unsafe { end.as_ptr().sub(len - i).write(vals[i]) };
                i += 1;
            }
            kani::assert(same_headers(k, &s0, &a.snaps()), "C15.filling_rev.moves_no_position");
            let out = unsafe { scope.allocate_prepared_slice_rev::<T>(end, len, cap) };
            let oa = out.as_ptr() as *mut T as usize;
            kani::assert(out.len() == len, "C15.commit_rev.exact_length");
            let j: usize = kani::any();
            kani::assume(j < len || len == 0);
            if len > 0 {
                kani::assert(unsafe { *(out.as_ptr() as *mut T).add(j) } == vals[j], "C15.commit_rev.exactly_the_pushed_elements");
            }
            let pos1 = a.snaps()[ci].pos;
            kani::assert(a.cur_index() == ci && al(pos1, S::MIN_ALIGN), "C10.commit_rev.position_aligned");
            kani::assert(oa >= free_lo && oa + len * SZ <= free_hi && al(oa, 2), "C01.commit_rev.block_inside_prepared_range");
            if S::UP {
                kani::assert(oa + cap * SZ == end.as_ptr() as usize, "C15.commit_rev.up_block_at_range_start");
                kani::assert(is_up((oa + len * SZ) as u128, S::MIN_ALIGN as u128, pos1 as u128), "C15.commit_rev.position_just_past_block");
            } else {
                kani::assert(oa + len * SZ == end.as_ptr() as usize, "C15.commit_rev.down_block_at_range_end");
                kani::assert(is_down(oa as u128, S::MIN_ALIGN as u128, pos1 as u128), "C15.commit_rev.position_at_block_start");
            }
            kani::assert(a.wf(), "C10.commit_rev.wf");
            kani::cover!(len == want, "full");
            kani::cover!(len < want, "partial");
        }
        kani::cover!(r.is_err(), "prepare-fails");
    }
}

type SUp1 = St<1, true, true, true, true>;
type SDn1 = St<1, false, true, true, true>;
type SUp8 = St<8, true, true, true, true>;
type SDn8 = St<8, false, true, true, true>;
type SUp4 = St<4, true, true, true, true>;
type SDn16 = St<16, false, true, true, true>;

inst!(raw_entry_points_up1, unwind 4, ob_raw_entry_points, LogAlloc, SUp1, 2, 64);
inst!(raw_entry_points_dn8, unwind 4, ob_raw_entry_points, LogAlloc, SDn8, 2, 64);
inst!(raw_entry_points_up4, unwind 4, ob_raw_entry_points, LogAlloc<u64>, SUp4, 2, 64);
inst!(raw_entry_points_dn16, unwind 4, ob_raw_entry_points, LogAlloc, SDn16, 2, 64);
inst!(public_entry_points_up1, unwind 4, ob_public_entry_points, LogAlloc, SUp1, 2, 64);
inst!(public_entry_points_dn8, unwind 4, ob_public_entry_points, LogAlloc, SDn8, 2, 64);

inst!(prepared_slice_up1, unwind 5, ob_prepared_slice, LogAlloc, SUp1, 1, 64, false);
inst!(prepared_slice_dn1, unwind 5, ob_prepared_slice, LogAlloc, SDn1, 1, 64, false);
inst!(prepared_slice_dn8, unwind 5, ob_prepared_slice, LogAlloc, SDn8, 1, 64, false);
inst!(prepared_slice_rev_up8, unwind 5, ob_prepared_slice, LogAlloc, SUp8, 1, 64, true);
inst!(prepared_slice_rev_up1, unwind 5, ob_prepared_slice, LogAlloc, SUp1, 1, 64, true);
inst!(prepared_slice_rev_dn1, unwind 5, ob_prepared_slice, LogAlloc, SDn1, 1, 64, true);
