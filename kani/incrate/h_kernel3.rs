//! Full-domain Kani twins of the typed chunk-size layer (`src/chunk/size.rs`), whose contracts are proved by Verus
//! (verus/contracts/chunk_size.spec).  Loop-free, every 64-bit input, per instantiation of (A, S): they give
//! counterexamples and back the PROOF-DRIFT rule (a harmless rewrite that Verus no longer follows is not an alarm).
//! Self-contained: nothing is imported from another harness module.
use core::alloc::Layout;

use crate::{
    chunk::{ChunkHeader, ChunkSize, ChunkSizeConfig, ChunkSizeHint},
    settings::{BumpAllocatorSettings, BumpSettings},
};

#[repr(align(64))]
#[derive(Clone, Copy, Default)]
pub(crate) struct A64(u8);
#[derive(Clone, Copy, Default)]
pub(crate) struct A24([u64; 3]);

type SUp = BumpSettings<1, true, true, true, true, true, 0>;
type SDn = BumpSettings<8, false, true, true, true, true, 0>;
type SDnMin = BumpSettings<4, false, true, true, true, true, 4096>;

/// what `chunk::size::config::<A, S>()` has to be (the function itself is private to `chunk`; it is reached through
/// `ChunkSize::{from_hint, from_capacity, align_allocation_size}`)
fn config<A, S: BumpAllocatorSettings>() -> ChunkSizeConfig {
    ChunkSizeConfig {
        up: S::UP,
        assumed_malloc_overhead_layout: Layout::new::<[usize; 2]>(),
        chunk_header_layout: Layout::new::<ChunkHeader<A>>(),
    }
}

fn size_align<A, S: BumpAllocatorSettings>() -> usize {
    let ha = core::mem::align_of::<ChunkHeader<A>>();
    if S::UP || ha < 16 { 16 } else { ha }
}

pub(crate) fn ob_config<A, S: BumpAllocatorSettings>() {
    let c = config::<A, S>();
    kani::assert(c.assumed_malloc_overhead_layout.size() == 16 && c.assumed_malloc_overhead_layout.align() == 8, "C12.config.overhead_layout");
    let (hs, ha) = (c.chunk_header_layout.size(), c.chunk_header_layout.align());
    kani::assert(ha >= 16 && hs >= 32 && hs % ha == 0, "C10.config.header_layout_satisfies_cfg_valid");
}

pub(crate) fn ob_align_allocation_size<A, S: BumpAllocatorSettings>() {
    let size: usize = kani::any();
    let r = ChunkSize::<A, S>::align_allocation_size(size);
    let a = size_align::<A, S>();
    kani::assert(r <= size, "C05.align_allocation_size.never_more_than_was_granted");
    kani::assert(r % a == 0 && size - r < a, "C12.align_allocation_size.rounded_down_to_16_and_header_alignment");
    kani::cover!(r != size, "rounded");
}

pub(crate) fn ob_from_hint<A, S: BumpAllocatorSettings>() {
    let hint: usize = kani::any();
    let eff = if hint > S::MINIMUM_CHUNK_SIZE { hint } else { S::MINIMUM_CHUNK_SIZE };
    let want = config::<A, S>().calc_size_from_hint(eff);
    let r = ChunkSize::<A, S>::from_hint(hint);
    let r2 = ChunkSizeHint::<A, S>::new(hint).calc_size();
    match (want, r, r2) {
        (None, None, None) => {}
        (Some(w), Some(r), Some(r2)) => {
            let l = r.layout();
            kani::assert(r2.layout() == l, "C12.calc_size.same_as_from_hint");
            match l {
                Some(l) => {
                    kani::assert(l.size() == w.get(), "C12.from_hint.is_the_configured_size_for_max_of_hint_and_minimum");
                    kani::assert(l.align() == core::mem::align_of::<ChunkHeader<A>>(), "C05.layout.alignment_is_the_header_alignment");
                }
                None => kani::assert(w.get() as u128 + core::mem::align_of::<ChunkHeader<A>>() as u128 - 1 > isize::MAX as u128, "C05.layout.none_only_when_no_layout_exists"),
            }
        }
        _ => kani::assert(false, "C12.from_hint.none_exactly_when_the_configured_size_overflows"),
    }
    kani::cover!(r.is_some() && hint > 4096, "large hint served");
}

pub(crate) fn ob_from_capacity<A, S: BumpAllocatorSettings>() {
    let size: usize = kani::any();
    let a_log: u8 = kani::any();
    kani::assume(a_log <= 12);
    let Ok(layout) = Layout::from_size_align(size, 1usize << a_log) else { return };
    let hint = config::<A, S>().calc_hint_from_capacity(layout);
    let r = ChunkSize::<A, S>::from_capacity(layout);
    let h2 = ChunkSizeHint::<A, S>::for_capacity(layout);
    kani::assert(h2.is_some() == hint.is_some(), "C12.for_capacity.none_exactly_when_the_hint_overflows");
    match hint {
        None => kani::assert(r.is_none(), "C12.from_capacity.none_when_the_hint_overflows"),
        Some(h) => {
            let want = ChunkSize::<A, S>::from_hint(h);
            match (want, r) {
                (None, None) => {}
                (Some(w), Some(r)) => kani::assert(w.layout() == r.layout() && (w.layout().is_some() || h > isize::MAX as usize / 2), "C12.from_capacity.is_the_size_for_the_hint_the_request_needs"),
                _ => kani::assert(false, "C12.from_capacity.none_exactly_when_the_size_overflows"),
            }
        }
    }
    kani::cover!(r.is_some() && size > 100, "capacity request served");
}

macro_rules! inst {
    ($($name:ident: $f:ident, $a:ty, $s:ty;)*) => {$(
        #[kani::proof]
        pub(crate) fn $name() {
            $f::<$a, $s>();
        }
    )*};
}
inst! {
    k_config_zst_up: ob_config, (), SUp;
    k_config_a64_dn: ob_config, A64, SDn;
    k_config_a24_dn: ob_config, A24, SDnMin;
    k_align_allocation_size_zst_up: ob_align_allocation_size, (), SUp;
    k_align_allocation_size_zst_dn: ob_align_allocation_size, (), SDn;
    k_align_allocation_size_a64_dn: ob_align_allocation_size, A64, SDn;
    k_align_allocation_size_a64_up: ob_align_allocation_size, A64, SUp;
    k_from_hint_zst_up: ob_from_hint, (), SUp;
    k_from_hint_a64_dn: ob_from_hint, A64, SDn;
    k_from_hint_a24_dn_min4096: ob_from_hint, A24, SDnMin;
    k_from_capacity_zst_up: ob_from_capacity, (), SUp;
    k_from_capacity_a64_dn: ob_from_capacity, A64, SDn;
}
