//! Index arithmetic of the exclusive vectors' NON-growing operations (`remove`, `swap_remove`, `pop`, `truncate`)
//! against the `std::vec::Vec` meaning, for EVERY index of a vector of 4 elements with symbolic values; the
//! reversed vector's mirrored addressing (`[end-len, end)`) is the point.  Allocator: the contract stub of
//! `h_stub.rs` (only `new_at` is used from it; NOTE for the verdict memo: this file's cache key does not include
//! `h_stub.rs` - `vf/run_kani.py::_DEPS` was left untouched so that the memo of every other obligation stays valid).
//! Added after seeded change C08f (`MutBumpVecRev::remove` skipped the shift for the last index instead of index 0).
use super::h_stub::StubBump;
use crate::{BumpVec, MutBumpVec, MutBumpVecRev};

const N: usize = 4;

/// model: `m[..len]` in slice order
#[derive(Clone, Copy)]
struct Model {
    m: [u16; N],
    len: usize,
}

impl Model {
    fn remove(&mut self, i: usize) -> u16 {
        let x = self.m[i];
        let mut j = i;
        while j + 1 < self.len {
            self.m[j] = self.m[j + 1];
            j += 1;
        }
        self.len -= 1;
        x
    }
    /// mirrored (`MutBumpVecRev`): the hole is filled with the FIRST element and the vector loses its front
    fn swap_remove_rev(&mut self, i: usize) -> u16 {
        let x = self.m[i];
        self.m[i] = self.m[0];
        self.remove(0);
        x
    }
    fn swap_remove(&mut self, i: usize) -> u16 {
        let x = self.m[i];
        self.m[i] = self.m[self.len - 1];
        self.len -= 1;
        x
    }
}

macro_rules! same_as_model {
    ($v:expr, $m:expr, $what:literal) => {{
        kani::assert($v.len() == $m.len, concat!("C08.", $what, ".same_length_as_vec"));
        kani::assert($v.capacity() >= $v.len(), concat!("C08.", $what, ".capacity_at_least_len"));
        let j: usize = kani::any();
        kani::assume(j < $m.len);
        if $m.len > 0 {
            kani::assert($v[j] == $m.m[j], concat!("C08.", $what, ".same_contents_as_vec"));
        }
    }};
}

macro_rules! rev_index_ops {
    ($($name:ident: $up:expr, $idx:expr;)*) => {$(
        #[kani::proof]
        #[kani::unwind(8)]
        pub(crate) fn $name() {
            let vals: [u16; N] = kani::any();
            // --- MutBumpVecRev: pushing prepends, so slice order is the reverse of push order
            let mut stub = StubBump::<$up>::new_at(8);
            let mut v: MutBumpVecRev<u16, &mut StubBump<$up>> = MutBumpVecRev::new_in(&mut stub);
            let mut i = 0;
            while i < N {
                kani::assert(v.try_push(vals[N - 1 - i]).is_ok(), "C08.rev_index_ops.push_is_served");
                i += 1;
            }
            let mut m = Model { m: vals, len: N };
            same_as_model!(v, m, "rev_index_ops.setup");
            let cap0 = v.capacity();
            let p0 = v.as_ptr() as usize + v.len() * 2;
            // remove(idx), then remove the (new) first and last element
            let got = v.remove($idx);
            kani::assert(got == m.remove($idx), "C08.mut_vec_rev.remove.returns_the_element_at_index");
            same_as_model!(v, m, "mut_vec_rev.remove");
            let got = v.remove(m.len - 1);
            kani::assert(got == m.remove(m.len - 1), "C08.mut_vec_rev.remove_last.returns_the_last_element");
            same_as_model!(v, m, "mut_vec_rev.remove_last");
            let got = v.swap_remove(1);
            kani::assert(got == m.swap_remove_rev(1), "C08.mut_vec_rev.swap_remove.returns_the_element_at_index");
            same_as_model!(v, m, "mut_vec_rev.swap_remove");
            kani::assert(v.capacity() == cap0 && v.as_ptr() as usize + v.len() * 2 == p0, "C08.mut_vec_rev.non_growing_ops_keep_buffer_and_capacity");
            kani::cover!(m.len == 1, "C08.rev_index_ops.reached_the_end");
            let last = v.pop();
            kani::assert(last == Some(m.m[0]) , "C08.mut_vec_rev.pop.returns_the_first_element_in_slice_order");
            kani::assert(v.pop().is_none() && v.len() == 0, "C08.mut_vec_rev.pop.empty_gives_none");
        }
    )*};
}
rev_index_ops! {
    rev_remove_idx0_up: true, 0;
    rev_remove_idx1_dn: false, 1;
    rev_remove_idx2_up: true, 2;
    rev_remove_idx3_dn: false, 3;
}

macro_rules! fwd_index_ops {
    ($($name:ident: $up:expr, $idx:expr, $ty:ident, [$($m:tt)*];)*) => {$(
        #[kani::proof]
        #[kani::unwind(8)]
        pub(crate) fn $name() {
            let vals: [u16; N] = kani::any();
            let mut stub = StubBump::<$up>::new_at(8);
            let mut v: $ty<u16, &$($m)* StubBump<$up>> = $ty::new_in(&$($m)* stub);
            let mut i = 0;
            while i < N {
                kani::assert(v.try_push(vals[i]).is_ok(), "C08.fwd_index_ops.push_is_served");
                i += 1;
            }
            let mut m = Model { m: vals, len: N };
            let cap0 = v.capacity();
            let p0 = v.as_ptr() as usize;
            let got = v.remove($idx);
            kani::assert(got == m.remove($idx), "C08.mut_vec.remove.returns_the_element_at_index");
            same_as_model!(v, m, "mut_vec.remove");
            let got = v.swap_remove(0);
            kani::assert(got == m.swap_remove(0), "C08.mut_vec.swap_remove.returns_the_element_at_index");
            same_as_model!(v, m, "mut_vec.swap_remove");
            v.truncate(1);
            m.len = 1;
            same_as_model!(v, m, "mut_vec.truncate");
            kani::assert(v.capacity() == cap0 && v.as_ptr() as usize == p0, "C08.mut_vec.non_growing_ops_keep_buffer_and_capacity");
            kani::cover!(v.len() == 1, "C08.fwd_index_ops.reached_the_end");
        }
    )*};
}
fwd_index_ops! {
    fwd_remove_idx0_dn: false, 0, MutBumpVec, [mut];
    fwd_remove_idx3_up: true, 3, MutBumpVec, [mut];
    shared_remove_idx1_up: true, 1, BumpVec, [];
    shared_remove_idx3_dn: false, 3, BumpVec, [];
}

macro_rules! rev_truncate {
    ($($name:ident: $up:expr, $to:expr;)*) => {$(
        #[kani::proof]
        #[kani::unwind(8)]
        pub(crate) fn $name() {
            let vals: [u16; N] = kani::any();
            let mut stub = StubBump::<$up>::new_at(8);
            let mut v: MutBumpVecRev<u16, &mut StubBump<$up>> = MutBumpVecRev::new_in(&mut stub);
            let mut i = 0;
            while i < N {
                kani::assert(v.try_push(vals[N - 1 - i]).is_ok(), "C08.rev_truncate.push_is_served");
                i += 1;
            }
            // mirrored: the reversed vector keeps the LAST `to` elements (documented)
            v.truncate($to);
            let mut m = Model { m: vals, len: N };
            while m.len > $to {
                m.remove(0);
            }
            same_as_model!(v, m, "mut_vec_rev.truncate");
            kani::cover!(v.len() == $to, "C08.rev_truncate.reached_the_end");
        }
    )*};
}
rev_truncate! {
    rev_truncate_to1_up: true, 1;
    rev_truncate_to3_dn: false, 3;
}
