//! Harnesses that MUST fail / MUST have an unsatisfiable cover: used by `./check selftest`
//! to show that the driver reports failures and vacuity (they belong to no property).
#[kani::proof]
pub(crate) fn selftest_must_fail() {
    let x: u8 = kani::any();
    kani::assert(x != 77, "selftest.must_fail");
}

#[kani::proof]
pub(crate) fn selftest_vacuous() {
    let x: u8 = kani::any();
    kani::assume(x > 10 && x < 5);
    kani::assert(x == 0, "selftest.vacuous");
    kani::cover!(true, "unreachable-cover");
}
