//! Layer II: pointer-level contracts of the arena core (`RawChunk`, `RawBump`, `allocator_impl`)
//! from an arbitrary well-formed state.
use core::{alloc::Layout, ptr::NonNull};

use super::{spec::*, state::*};
use crate::{
    alloc::AllocError,
    layout::{ArrayLayout, CustomLayout, SizedLayout},
    settings::BumpAllocatorSettings,
};

/// A witness byte inside some grant: (pointer with provenance, address).
pub(crate) fn any_byte_in_grants(k: usize) -> (*mut u8, usize) {
    let i: usize = kani::any();
    kani::assume(i < k);
    let g = unsafe { GRANTS[i] };
    let off: usize = kani::any();
    kani::assume(off < g.granted);
    (unsafe { g.raw.add(off) }, g.ptr + off)
}

/// Contract of `RawChunk::alloc` (C01 alloc step, C02 frame, C10 wf), for any layout path hint.
pub(crate) fn ob_chunk_alloc<A, S>(k: usize, hint: usize, max_size: usize, witness: bool)
where
    A: crate::BaseAllocator<S::GuaranteedAllocated> + Default,
    S: BumpAllocatorSettings,
{
    let mut a = Arena::<A, S>::build(k, hint);
    kani::assert(a.wf(), "C10.constructors_establish_wf");
    a.havoc();
    kani::assert(a.wf(), "C10.havoc_is_wf");
    let ci = a.cur;
    let before = a.snaps();
    let g = a.geo(ci);
    let layout = any_layout(max_size, 7);
    let (wp, wa) = if witness { any_byte_in_grants(k) } else { (unsafe { GRANTS[0].raw }, unsafe { GRANTS[0].ptr }) };
    let w_alloc = a.is_allocated(wa);
    let w_old = unsafe { *wp };

    let r = a.bump.chunk.get().alloc(CustomLayout(layout));

    let after = a.snaps();
    let old_pos = before[ci].pos;
    match r {
        Some(p) => {
            let addr = p.as_ptr() as usize;
            kani::assert(al(addr, layout.align()), "C01.alloc.aligned");
            if S::UP {
                kani::assert(addr >= old_pos && addr + layout.size() <= g.content_end, "C01.alloc.inside_free_range");
                kani::assert(is_up(old_pos as u128, layout.align() as u128, addr as u128), "C11.alloc.nearest");
                kani::assert(is_up((addr + layout.size()) as u128, S::MIN_ALIGN as u128, after[ci].pos as u128), "C01.alloc.new_pos_past_block");
            } else {
                kani::assert(addr >= g.content_start && addr + layout.size() <= old_pos, "C01.alloc.inside_free_range");
                kani::assert(after[ci].pos == addr, "C01.alloc.new_pos_is_block_start");
                let big = if layout.align() > S::MIN_ALIGN { layout.align() } else { S::MIN_ALIGN };
                kani::assert(is_down((old_pos - layout.size()) as u128, big as u128, addr as u128), "C11.alloc.nearest");
            }
            // the block is allocated afterwards and was free before
            kani::assert(layout.size() == 0 || (a.is_allocated(addr) && a.is_allocated(addr + layout.size() - 1)), "C01.alloc.block_is_allocated_after");
        }
        None => {
            kani::assert(after[ci].pos == old_pos, "C07.alloc.none_changes_nothing");
            if S::UP {
                kani::assert(up128(old_pos as u128, layout.align() as u128) + layout.size() as u128 > g.content_end as u128, "C11.alloc.none_only_if_nothing_fits");
            }
        }
    }
    // frame: nothing but the current chunk's position changes
    let mut i = 0;
    while i < k {
        kani::assert(after[i].end == before[i].end && after[i].prev == before[i].prev && after[i].next == before[i].next, "C10.alloc.frame_links");
        if i != ci {
            kani::assert(after[i].pos == before[i].pos, "C10.alloc.frame_other_positions");
        }
        i += 1;
    }
    kani::assert(a.cur_index() == ci, "C10.alloc.current_chunk_unchanged");
    kani::assert(a.wf(), "C10.alloc.wf");
    // C02: no byte of any grant is written (headers aside, which `snaps` covers)
    let w_new = unsafe { *wp };
    let in_header = {
        let mut h = false;
        let mut i = 0;
        while i < k {
            let gi = a.geo(i);
            h = h || (wa >= gi.header && wa < gi.header + core::mem::size_of::<crate::chunk::ChunkHeader<A>>());
            i += 1;
        }
        h
    };
    kani::assert(in_header || w_new == w_old, "C02.alloc.writes_no_content_byte");
    kani::assert(!w_alloc || a.is_allocated(wa), "C01.alloc.allocated_only_grows");
    kani::cover!(r.is_some(), "some");
    kani::cover!(r.is_none(), "none");
    kani::cover!(r.is_some() && layout.align() > 16, "some-big-align");
    kani::cover!(k == 1 || ci + 1 < k, "not-last-chunk-current");
}

macro_rules! inst {
    ($name:ident, $f:ident, $A:ty, $S:ty, $($arg:expr),*) => {
        #[kani::proof]
        pub(crate) fn $name() {
            $f::<$A, $S>($($arg),*);
        }
    };
    ($name:ident, unwind $u:literal, $f:ident, $A:ty, $S:ty, $($arg:expr),*) => {
        #[kani::proof]
        #[kani::unwind($u)]
        pub(crate) fn $name() {
            $f::<$A, $S>($($arg),*);
        }
    };
}
pub(crate) use inst;

/// true iff the address lies in some chunk header
pub(crate) fn in_any_header<A, S>(a: &Arena<A, S>, addr: usize) -> bool
where
    A: crate::BaseAllocator<S::GuaranteedAllocated> + Default,
    S: BumpAllocatorSettings,
{
    let mut h = false;
    let mut i = 0;
    while i < a.k {
        let gi = a.geo(i);
        h = h || (addr >= gi.header && addr < gi.header + core::mem::size_of::<crate::chunk::ChunkHeader<A>>());
        i += 1;
    }
    h
}

/// frame helper: every header field of every chunk equal
pub(crate) fn same_headers(k: usize, x: &[HeaderSnap; 3], y: &[HeaderSnap; 3]) -> bool {
    let mut ok = true;
    let mut i = 0;
    while i < k {
        ok = ok && x[i] == y[i];
        i += 1;
    }
    ok
}

/// Contract of `RawChunk::prepare_allocation` and `prepare_allocation_range` (C15 frame: nothing
/// moves; C01: the prepared range lies in the free part of the current chunk; C11 glue).
pub(crate) fn ob_chunk_prepare<A, S>(k: usize, hint: usize, max_size: usize)
where
    A: crate::BaseAllocator<S::GuaranteedAllocated> + Default,
    S: BumpAllocatorSettings,
{
    let mut a = Arena::<A, S>::build(k, hint);
    a.havoc();
    let ci = a.cur;
    let before = a.snaps();
    let g = a.geo(ci);
    let old_pos = before[ci].pos;
    let (free_lo, free_hi) = if S::UP { (old_pos, g.content_end) } else { (g.content_start, old_pos) };

    let layout = any_layout(max_size, 7);
    let r = a.bump.chunk.get().prepare_allocation(CustomLayout(layout));
    kani::assert(same_headers(k, &before, &a.snaps()) && a.cur_index() == ci, "C15.prepare_allocation.changes_nothing");
    if let Some(p) = r {
        let addr = p.as_ptr() as usize;
        kani::assert(al(addr, layout.align()), "C01.prepare_allocation.aligned");
        kani::assert(addr >= free_lo && addr + layout.size() <= free_hi, "C01.prepare_allocation.inside_free_range");
    } else if S::UP {
        kani::assert(up128(old_pos as u128, layout.align() as u128) + layout.size() as u128 > free_hi as u128, "C11.prepare_allocation.none_only_if_nothing_fits");
    }

    // the range variant: size must be a multiple of align (ArrayLayout)
    let al_log: u8 = kani::any();
    kani::assume(al_log <= 7);
    let align = 1usize << al_log;
    let n: usize = kani::any();
    kani::assume(n <= max_size / align);
    let arr = ArrayLayout::from_size_align(n * align, align).unwrap();
    let rr = a.bump.chunk.get().prepare_allocation_range(arr);
    kani::assert(same_headers(k, &before, &a.snaps()) && a.cur_index() == ci, "C15.prepare_allocation_range.changes_nothing");
    match rr {
        Some(ref range) => {
            let s = range.start.as_ptr() as usize;
            let e = range.end.as_ptr() as usize;
            kani::assert(is_up(free_lo as u128, align as u128, s as u128), "C11.prepare_range.start_is_least_aligned");
            kani::assert(is_down(free_hi as u128, align as u128, e as u128), "C11.prepare_range.end_is_greatest_aligned");
            kani::assert(s <= e && e - s >= n * align, "C11.prepare_range.at_least_request");
            kani::assert(s >= free_lo && e <= free_hi, "C01.prepare_range.inside_free_range");
        }
        None => {
            kani::assert(up128(free_lo as u128, align as u128) + (n * align) as u128 > down128(free_hi as u128, align as u128), "C11.prepare_range.none_only_if_nothing_fits");
        }
    }
    kani::cover!(r.is_some(), "prepare-some");
    kani::cover!(r.is_none(), "prepare-none");
    kani::cover!(rr.is_some(), "range-some");
    kani::cover!(rr.is_none(), "range-none");
}

/// Contract of `Checkpoint::new` + `RawBump::reset_to` (C03): from ANY later state of the same
/// arena, resetting restores current chunk, position and allocated byte count exactly,
/// changes no other header field, writes no content byte, and calls the base allocator never.
pub(crate) fn ob_reset_to<A, S>(k: usize, hint: usize)
where
    A: crate::BaseAllocator<S::GuaranteedAllocated> + Default,
    S: BumpAllocatorSettings,
{
    let mut a = Arena::<A, S>::build(k, hint);
    a.havoc();
    let c0 = a.cur;
    let at_cp = a.snaps();
    let bytes_at_cp = a.allocated_bytes();
    let cp = a.bump.checkpoint();
    kani::assert(cp.chunk.as_ptr() as usize == a.geo(c0).header && cp.address.get() == at_cp[c0].pos, "C03.checkpoint.records_chunk_and_position");

    // any later state: the current chunk is c0 or a later one, every position from c0 on is arbitrary
    let cur2: usize = kani::any();
    kani::assume(cur2 >= c0 && cur2 < k);
    let mut i = c0;
    while i < k {
        let g = a.geo(i);
        let pos: usize = kani::any();
        kani::assume(pos >= g.content_start && pos <= g.content_end);
        if i == cur2 {
            kani::assume(al(pos, S::MIN_ALIGN));
        }
        unsafe { a.chunk(i).set_pos_addr(pos) };
        i += 1;
    }
    a.bump.chunk.set(*a.chunk(cur2));
    let later = a.snaps();
    let (wp, wa) = any_byte_in_grants(k);
    let w_old = unsafe { *wp };
    let (calls_a, calls_d) = unsafe { (ALLOC_CALLS, DEALLOC_CALLS) };

    unsafe { a.bump.reset_to(cp) };

    let after = a.snaps();
    kani::assert(a.cur_index() == c0, "C03.reset_to.current_chunk_restored");
    kani::assert(after[c0].pos == at_cp[c0].pos, "C03.reset_to.position_restored");
    kani::assert(a.allocated_bytes() == bytes_at_cp, "C03.reset_to.allocated_bytes_restored");
    let mut i = 0;
    while i < k {
        kani::assert(after[i].end == later[i].end && after[i].prev == later[i].prev && after[i].next == later[i].next, "C03.reset_to.links_untouched");
        if i != c0 {
            kani::assert(after[i].pos == later[i].pos, "C03.reset_to.other_positions_untouched");
        }
        i += 1;
    }
    kani::assert(a.wf(), "C10.reset_to.wf");
    kani::assert(unsafe { ALLOC_CALLS == calls_a && DEALLOC_CALLS == calls_d }, "C05.reset_to.releases_and_acquires_nothing");
    kani::assert(live_grants() == k, "C03.reset_to.chunks_remain_available");
    kani::assert(in_any_header(&a, wa) || unsafe { *wp } == w_old, "C02.reset_to.writes_no_content_byte");
    kani::cover!(cur2 > c0, "reset-across-chunks");
    kani::cover!(cur2 == c0, "reset-within-chunk");
}

/// Contract of `claim` / `reclaim` and of every entry point on the claimed handle (C14).
pub(crate) fn ob_claim<A, S>(k: usize, hint: usize)
where
    A: crate::BaseAllocator<S::GuaranteedAllocated> + Default,
    S: BumpAllocatorSettings,
{
    let mut a = Arena::<A, S>::build(k, hint);
    a.havoc();
    let before = a.snaps();
    let ci = a.cur;
    let old_header = a.bump.chunk.get().header().as_ptr() as usize;
    kani::assert(!a.bump.is_claimed(), "C14.unclaimed_before");

    let claimant = a.bump.claim();

    kani::assert(a.bump.is_claimed(), "C14.claim.original_is_claimed");
    kani::assert(claimant.chunk.get().header().as_ptr() as usize == old_header, "C14.claim.guard_continues_where_original_was");
    kani::assert(same_headers(k, &before, &a.snaps()), "C14.claim.touches_no_header");

    // every request for memory through the original handle fails ...
    let layout = any_layout(64, 7);
    kani::assert(a.bump.alloc::<AllocError>(layout).is_err(), "C14.claimed.alloc_fails");
    kani::assert(a.bump.alloc_sized::<AllocError, u64>().is_err(), "C14.claimed.alloc_sized_fails");
    let n: usize = kani::any();
    kani::assume(n >= 1 && n <= 1000);
    kani::assert(a.bump.alloc_slice::<AllocError, u32>(n).is_err(), "C14.claimed.alloc_slice_fails");
    kani::assert(a.bump.prepare_sized_allocation::<AllocError, u64>().is_err(), "C14.claimed.prepare_sized_fails");
    kani::assert(a.bump.prepare_slice_allocation::<AllocError, u32>(n).is_err(), "C14.claimed.prepare_slice_fails");
    kani::assert(a.bump.reserve::<AllocError>(n).is_err(), "C14.claimed.reserve_fails");
    kani::assert(a.bump.make_allocated::<AllocError>().is_err(), "C14.claimed.make_allocated_fails");
    kani::assert(crate::allocator_impl::allocate(&a.bump, layout).is_err(), "C14.claimed.allocate_fails");
    // ... deallocate / shrink of any block of any real chunk do nothing ...
    let (bp, ba) = any_byte_in_grants(k);
    let bl = any_layout(32, 4);
    kani::assume(ba % bl.align() == 0);
    // the block lies inside one granted block
    kani::assume({
        let mut inside = false;
        let mut i = 0;
        while i < k {
            let g = unsafe { GRANTS[i] };
            inside = inside || (ba >= g.ptr && ba + bl.size() <= g.ptr + g.granted);
            i += 1;
        }
        inside
    });
    unsafe { crate::allocator_impl::deallocate(&a.bump, NonNull::new_unchecked(bp), bl) };
    let nl_size: usize = kani::any();
    kani::assume(nl_size <= bl.size());
    let nl = Layout::from_size_align(nl_size, bl.align()).unwrap();
    let sr = unsafe { crate::allocator_impl::shrink(&a.bump, NonNull::new_unchecked(bp), bl, nl) };
    kani::assert(sr.is_ok() && sr.unwrap().as_ptr() as *mut u8 as usize == ba, "C14.claimed.shrink_returns_block_unchanged");
    kani::assert(same_headers(k, &before, &a.snaps()), "C14.claimed.nothing_changes");
    kani::assert(a.bump.is_claimed(), "C14.claimed.stays_claimed");
    // ... its stats report an empty arena
    let st = a.bump.stats();
    kani::assert(st.count() == 0 && st.size() == 0 && st.capacity() == 0 && st.allocated() == 0 && st.remaining() == 0, "C14.claimed.stats_all_zero");
    kani::assert(st.current_chunk().is_none(), "C14.claimed.no_current_chunk");

    // the guard allocates; afterwards the original continues exactly where the guard stopped
    let gl = any_layout(48, 5);
    let gr = claimant.chunk.get().alloc(CustomLayout(gl));
    let guard_state = a.snaps();
    let guard_chunk = claimant.chunk.get().header().as_ptr() as usize;
    a.bump.reclaim(&claimant);
    kani::assert(!a.bump.is_claimed(), "C14.reclaim.unclaimed_again");
    kani::assert(a.bump.chunk.get().header().as_ptr() as usize == guard_chunk, "C14.reclaim.continues_where_guard_stopped");
    kani::assert(same_headers(k, &guard_state, &a.snaps()), "C14.reclaim.touches_no_header");
    kani::assert(a.wf(), "C10.reclaim.wf");
    kani::cover!(gr.is_some(), "guard-allocated");
    kani::cover!(gr.is_none(), "guard-alloc-none");
}

/// Contract of `RawBump::align_to::<M>` (C18): position becomes a multiple of M in bump direction,
/// stays inside the chunk, nothing else changes, allocated bytes never decrease.
pub(crate) fn ob_align_to<A, S, const M: usize>(k: usize, hint: usize)
where
    A: crate::BaseAllocator<S::GuaranteedAllocated> + Default,
    S: BumpAllocatorSettings,
    crate::settings::MinimumAlignment<M>: crate::settings::SupportedMinimumAlignment,
{
    let mut a = Arena::<A, S>::build(k, hint);
    a.havoc();
    let ci = a.cur;
    let before = a.snaps();
    let bytes = a.allocated_bytes();
    a.bump.align_to::<crate::settings::MinimumAlignment<M>>();
    let after = a.snaps();
    let g = a.geo(ci);
    if M > S::MIN_ALIGN {
        if S::UP {
            kani::assert(is_up(before[ci].pos as u128, M as u128, after[ci].pos as u128), "C18.align_to.least_multiple_upwards");
        } else {
            kani::assert(is_down(before[ci].pos as u128, M as u128, after[ci].pos as u128), "C18.align_to.greatest_multiple_downwards");
        }
    } else {
        kani::assert(after[ci].pos == before[ci].pos, "C18.align_to.noop_when_not_raising");
    }
    kani::assert(al(after[ci].pos, M) && al(after[ci].pos, S::MIN_ALIGN), "C18.align_to.position_aligned");
    kani::assert(after[ci].pos >= g.content_start && after[ci].pos <= g.content_end, "C18.align_to.inside_chunk");
    kani::assert(a.allocated_bytes() >= bytes && a.allocated_bytes() - bytes < M, "C18.align_to.allocated_grows_by_less_than_m");
    let mut i = 0;
    while i < k {
        kani::assert(after[i].end == before[i].end && after[i].prev == before[i].prev && after[i].next == before[i].next, "C18.align_to.frame_links");
        if i != ci {
            kani::assert(after[i].pos == before[i].pos, "C18.align_to.frame_other_positions");
        }
        i += 1;
    }
    kani::assert(a.cur_index() == ci && a.wf(), "C10.align_to.wf");
    kani::cover!(M <= S::MIN_ALIGN || after[ci].pos != before[ci].pos, "moved");
}

/// Contract of `allocator_impl::deallocate` + `is_last` (C13, C01, C02, C10), for ANY block that
/// lies in the allocated region (split-off parts and blocks of earlier chunks included).
pub(crate) fn ob_deallocate<A, S>(k: usize, hint: usize)
where
    A: crate::BaseAllocator<S::GuaranteedAllocated> + Default,
    S: BumpAllocatorSettings,
{
    let mut a = Arena::<A, S>::build(k, hint);
    a.havoc();
    let ci = a.cur;
    let before = a.snaps();
    let bytes = a.allocated_bytes();
    let (bp, ba) = any_byte_in_grants(k);
    let bl = any_layout(200, 5);
    // the live block [ba, ba+size) lies in the allocated region and is aligned
    kani::assume(al(ba, bl.align()));
    kani::assume(a.is_allocated(ba) || bl.size() == 0);
    kani::assume(bl.size() == 0 || a.is_allocated(ba + bl.size() - 1));
    // one block lies in one chunk
    let gi = {
        let mut r = 3;
        let mut i = 0;
        while i < k {
            let g = a.geo(i);
            if ba >= g.content_start && ba + bl.size() <= g.content_end {
                r = i;
            }
            i += 1;
        }
        r
    };
    kani::assume(gi < k);
    let (wp, wa) = any_byte_in_grants(k);
    let w_old = unsafe { *wp };
    let w_alloc = a.is_allocated(wa);

    unsafe { crate::allocator_impl::deallocate(&a.bump, NonNull::new_unchecked(bp), bl) };

    let after = a.snaps();
    let pos = before[ci].pos;
    let is_last = if S::UP { ba + bl.size() == pos } else { ba == pos };
    if S::DEALLOCATES && is_last {
        if S::UP {
            kani::assert(is_up(ba as u128, S::MIN_ALIGN as u128, after[ci].pos as u128), "C13.deallocate.last_block_reclaimed_up");
        } else {
            kani::assert(is_down((ba + bl.size()) as u128, S::MIN_ALIGN as u128, after[ci].pos as u128), "C13.deallocate.last_block_reclaimed_down");
        }
        kani::assert(a.allocated_bytes() <= bytes, "C13.deallocate.allocated_does_not_grow");
        // nothing outside the block is un-allocated
        let inside = wa >= ba && wa < ba + bl.size();
        kani::assert(!w_alloc || inside || a.is_allocated(wa), "C13.deallocate.reclaims_only_the_block");
    } else {
        kani::assert(after[ci].pos == before[ci].pos, "C13.deallocate.other_block_reclaims_nothing");
        kani::assert(a.allocated_bytes() == bytes, "C13.deallocate.allocated_unchanged");
    }
    let mut i = 0;
    while i < k {
        kani::assert(after[i].end == before[i].end && after[i].prev == before[i].prev && after[i].next == before[i].next, "C10.deallocate.frame_links");
        if i != ci {
            kani::assert(after[i].pos == before[i].pos, "C10.deallocate.frame_other_positions");
        }
        i += 1;
    }
    kani::assert(a.cur_index() == ci && a.wf(), "C10.deallocate.wf");
    kani::assert(in_any_header(&a, wa) || unsafe { *wp } == w_old, "C02.deallocate.writes_no_content_byte");
    kani::cover!(is_last && bl.size() > 0, "last-block");
    kani::cover!(!is_last, "not-last-block");
    kani::cover!(gi != ci || k == 1, "block-in-other-chunk");
}

/// Contract of `RawBump::alloc` including the slow path `in_another_chunk` (C01, C02, C07, C10,
/// C12, C05), from any state of a K-chunk arena, with a base allocator that may refuse.
pub(crate) fn ob_bump_alloc<A, S>(k: usize, hint: usize, max_size: usize, may_fail: bool)
where
    A: crate::BaseAllocator<S::GuaranteedAllocated> + Default,
    S: BumpAllocatorSettings,
{
    ob_bump_alloc_b::<A, S>(k, hint, max_size, may_fail, usize::MAX);
}

pub(crate) fn ob_bump_alloc_b<A, S>(k: usize, hint: usize, max_size: usize, may_fail: bool, budget: usize)
where
    A: crate::BaseAllocator<S::GuaranteedAllocated> + Default,
    S: BumpAllocatorSettings,
{
    let mut a = Arena::<A, S>::build(k, hint);
    a.havoc();
    let ci = a.cur;
    let before = a.snaps();
    let layout = any_layout(max_size, 6);
    let (wp, wa) = any_byte_in_grants(k);
    let w_old = unsafe { *wp };
    let w_alloc = a.is_allocated(wa);
    let w_free = a.is_free(wa);
    let bytes = a.allocated_bytes();
    unsafe {
        MAY_FAIL = may_fail;
        BUDGET = budget;
    }

    let r = a.bump.alloc::<AllocError>(layout);

    unsafe {
        MAY_FAIL = false;
        BUDGET = usize::MAX;
    }
    let n_grants = unsafe { N_GRANTS };
    let new_cur = a.bump.chunk.get().header().as_ptr() as usize;
    match r {
        Ok(p) => {
            let addr = p.as_ptr() as usize;
            kani::assert(al(addr, layout.align()), "C01.alloc.aligned");
            if n_grants == k {
                // served from an existing chunk: the current one or a later one whose position was reset first
                let ni = a.cur_index();
                kani::assert(ni < k && ni >= ci, "C01.alloc.moves_only_forward");
                let g = a.geo(ni);
                kani::assert(addr >= g.content_start && addr + layout.size() <= g.content_end, "C01.alloc.inside_owned_memory");
                kani::assert(layout.size() == 0 || (wa != addr) || w_free, "C01.alloc.block_was_free");
                kani::assert(a.wf(), "C10.alloc.wf");
                let after = a.snaps();
                let mut i = 0;
                while i < ci {
                    kani::assert(after[i] == before[i], "C10.alloc.earlier_chunks_untouched");
                    i += 1;
                }
                if ni > ci {
                    // a later chunk is used from its start: first block == nearest to the content start
                    if S::UP {
                        kani::assert(is_up(g.content_start as u128, layout.align() as u128, addr as u128), "C03.alloc.later_chunk_was_reset");
                    }
                    kani::assert(after[ci].pos == before[ci].pos, "C10.alloc.left_chunk_keeps_position");
                }
            } else {
                // a new chunk was appended: exactly one, the request fits, links symmetric, strictly larger
                kani::assert(n_grants == k + 1, "C12.alloc.exactly_one_new_chunk");
                let g = geo::<A, S>(unsafe { GRANTS[k] });
                kani::assert(new_cur == g.header, "C10.alloc.new_chunk_is_current");
                kani::assert(addr >= g.content_start && addr + layout.size() <= g.content_end, "C12.alloc.fits_in_new_chunk");
                let last = a.snaps()[k - 1];
                kani::assert(last.next == g.header, "C10.alloc.new_chunk_linked_forward");
                let hs = snap(a.bump.chunk.get().header());
                kani::assert(hs.prev == a.geo(k - 1).header && hs.next == 0, "C10.alloc.new_chunk_linked_backward");
                kani::assert(g.size > a.geo(k - 1).size, "C10.alloc.new_chunk_strictly_larger");
                kani::assert(g.size + 16 >= 2 * a.geo(k - 1).size, "C12.alloc.new_chunk_at_least_doubles");
                kani::assert(hs.end == (if S::UP { g.chunk_end } else { g.chunk_start }), "C10.alloc.new_chunk_geometry");
            }
        }
        Err(_) => {
            // C07: an error, never a panic; everything allocated before is still allocated; nothing leaked
            kani::assert(n_grants == k, "C07.alloc.err_leaks_no_chunk");
            kani::assert(a.wf(), "C07.alloc.err_keeps_invariant");
            kani::assert(a.cur_index() >= ci && a.cur_index() < k, "C07.alloc.err_current_chunk_valid");
            // "after the failure ... keeps working": the failed request leaves the current chunk and its position
            // where they were (prepared, not yet committed allocations of the Mut* collections live there)
            kani::assert(a.cur_index() == ci && a.snaps()[ci].pos == before[ci].pos, "C07.alloc.err_leaves_current_chunk_and_position");
        }
    }
    kani::assert(!w_alloc || (wa - 0 == wa && (n_grants > k || a.is_allocated(wa))), "C01.alloc.allocated_only_grows");
    kani::assert(in_any_header(&a, wa) || unsafe { *wp } == w_old, "C02.alloc.writes_no_content_byte");
    kani::assert(unsafe { DEALLOC_CALLS } == 0, "C05.alloc.releases_nothing");
    kani::cover!(r.is_ok() && n_grants == k && a.cur_index() == ci, "fast-path");
    kani::cover!(r.is_ok() && n_grants == k && a.cur_index() > ci || k == 1, "later-chunk");
    kani::cover!(budget == 0 || (r.is_ok() && n_grants == k + 1), "new-chunk");
    kani::cover!(r.is_err() || !(may_fail || budget == 0), "error");
}

/// Same contract with a base allocator that refuses every further chunk (no symbolic-size chunk is
/// created: in downward arenas the header write at `ptr + size - H` with a symbolic size exhausts CBMC).
pub(crate) fn ob_bump_alloc_nogrow<A, S>(k: usize, hint: usize, max_size: usize)
where
    A: crate::BaseAllocator<S::GuaranteedAllocated> + Default,
    S: BumpAllocatorSettings,
{
    ob_bump_alloc_b::<A, S>(k, hint, max_size, false, 0);
}

/// Contract of `RawBump::reset` (C03/C05/C10): exactly the last chunk stays, every other grant is
/// released exactly once with a fitting layout, the remaining chunk is empty and unlinked.
pub(crate) fn ob_reset<A, S>(k: usize, hint: usize)
where
    A: crate::BaseAllocator<S::GuaranteedAllocated> + Default,
    S: BumpAllocatorSettings,
{
    let mut a = Arena::<A, S>::build(k, hint);
    a.havoc();
    let last = a.geo(k - 1);
    a.bump.reset();
    kani::assert(live_grants() == 1 && unsafe { GRANTS[k - 1].live }, "C05.reset.keeps_exactly_the_largest_chunk");
    kani::assert(unsafe { DEALLOC_CALLS } == k - 1, "C05.reset.releases_each_other_chunk_once");
    kani::assert(a.bump.chunk.get().header().as_ptr() as usize == last.header, "C03.reset.last_chunk_is_current");
    let s = snap(a.bump.chunk.get().header());
    kani::assert(s.prev == 0 && s.next == 0, "C10.reset.remaining_chunk_unlinked");
    kani::assert(s.pos == (if S::UP { last.content_start } else { last.content_end }), "C03.reset.position_at_start");
    kani::assert(a.allocated_bytes_of_current_only() == 0, "C10.reset.nothing_allocated");
    // release the rest: every grant returned exactly once in total
    unsafe { a.bump.manually_drop() };
    kani::assert(live_grants() == 0 && unsafe { DEALLOC_CALLS } == k, "C05.drop.every_chunk_returned_exactly_once");
}

/// Contract of `reset_to_start` (C03/C05) and of `manually_drop` from any current chunk (C05).
pub(crate) fn ob_reset_to_start_and_drop<A, S>(k: usize, hint: usize)
where
    A: crate::BaseAllocator<S::GuaranteedAllocated> + Default,
    S: BumpAllocatorSettings,
{
    let mut a = Arena::<A, S>::build(k, hint);
    a.havoc();
    let before = a.snaps();
    let first = a.geo(0);
    a.bump.reset_to_start();
    let after = a.snaps();
    kani::assert(a.cur_index() == 0, "C03.reset_to_start.first_chunk_is_current");
    kani::assert(after[0].pos == (if S::UP { first.content_start } else { first.content_end }), "C03.reset_to_start.position_at_start");
    kani::assert(a.allocated_bytes() == 0, "C03.reset_to_start.nothing_allocated");
    kani::assert(live_grants() == k && unsafe { DEALLOC_CALLS } == 0, "C05.reset_to_start.releases_none");
    let mut i = 1;
    while i < k {
        kani::assert(after[i] == before[i], "C10.reset_to_start.later_chunks_untouched");
        i += 1;
    }
    kani::assert(a.wf(), "C10.reset_to_start.wf");
    // drop from ANY current chunk returns every grant exactly once
    a.havoc();
    unsafe { a.bump.manually_drop() };
    kani::assert(live_grants() == 0 && unsafe { DEALLOC_CALLS } == k, "C05.drop.every_chunk_returned_exactly_once");
}

/// Accessor identities and sums (C10), typed and type-erased, for an arbitrary wf state.
pub(crate) fn ob_stats<A, S>(k: usize, hint: usize, cur: usize)
where
    A: crate::BaseAllocator<S::GuaranteedAllocated> + Default,
    S: BumpAllocatorSettings,
{
    use crate::stats::{AnyChunk, AnyStats};
    let mut a = Arena::<A, S>::build(k, hint);
    a.havoc_at(cur);
    let st = a.bump.stats();
    // independent sums over the grant table
    let (mut size, mut cap) = (0usize, 0usize);
    let mut i = 0;
    while i < k {
        let g = a.geo(i);
        size += g.size;
        cap += g.content_end - g.content_start;
        i += 1;
    }
    let (t_count, t_size, t_cap, t_alloc, t_rem) = (st.count(), st.size(), st.capacity(), st.allocated(), st.remaining());
    kani::assert(t_count == k, "C10.stats.count");
    kani::assert(t_size == size, "C10.stats.size");
    kani::assert(t_cap == cap, "C10.stats.capacity");
    kani::assert(t_alloc == a.allocated_bytes(), "C10.stats.allocated");
    kani::assert(t_alloc + t_rem == t_cap && t_cap <= t_size, "C10.stats.allocated_plus_remaining_is_capacity");
    // per chunk: accessors equal the grant-derived geometry; forward and backward agree
    let mut it = st.small_to_big();
    let mut i = 0;
    while i < k {
        let c = it.next().unwrap();
        let g = a.geo(i);
        kani::assert(c.chunk_start().as_ptr() as usize == g.chunk_start && c.chunk_end().as_ptr() as usize == g.chunk_end, "C10.chunk.range");
        kani::assert(c.content_start().as_ptr() as usize == g.content_start && c.content_end().as_ptr() as usize == g.content_end, "C10.chunk.content_range");
        kani::assert(c.size() == g.size && c.capacity() == g.content_end - g.content_start, "C10.chunk.size_capacity");
        kani::assert(c.allocated() + c.remaining() == c.capacity(), "C10.chunk.allocated_plus_remaining");
        // type-erased view reports the same numbers and ranges
        let e: AnyChunk = c.into();
        kani::assert(e.size() == c.size(), "C10.any_chunk.size");
        kani::assert(e.capacity() == c.capacity(), "C10.any_chunk.capacity");
        kani::assert(e.allocated() == c.allocated(), "C10.any_chunk.allocated");
        kani::assert(e.remaining() == c.remaining(), "C10.any_chunk.remaining");
        kani::assert(e.chunk_start() == c.chunk_start() && e.chunk_end() == c.chunk_end(), "C10.any_chunk.chunk_range");
        kani::assert(e.content_start() == c.content_start() && e.content_end() == c.content_end(), "C10.any_chunk.content_range");
        kani::assert(e.bump_position() == c.bump_position(), "C10.any_chunk.bump_position");
        i += 1;
    }
    kani::assert(it.next().is_none(), "C10.stats.forward_iteration_ends");
    let mut it = st.big_to_small();
    let mut i = k;
    while i > 0 {
        let c = it.next().unwrap();
        kani::assert(c.chunk_start().as_ptr() as usize == a.geo(i - 1).chunk_start, "C10.stats.backward_is_reverse_of_forward");
        i -= 1;
    }
    kani::assert(it.next().is_none(), "C10.stats.backward_iteration_ends");
    let e: AnyStats = st.into();
    kani::assert(e.count() == t_count, "C10.any_stats.count");
    kani::assert(e.size() == t_size, "C10.any_stats.size");
    kani::assert(e.capacity() == t_cap, "C10.any_stats.capacity");
    kani::assert(e.allocated() == t_alloc, "C10.any_stats.allocated");
    kani::assert(e.remaining() == t_rem, "C10.any_stats.remaining");
    kani::cover!(true, "reached-end");
}

// ---------------------------------------------------------------------------------------------
// instantiations (quick tier); the thorough tier adds more in h_arena_thorough.rs
type SUp1 = St<1, true, true, true, true>;
type SDn1 = St<1, false, true, true, true>;
type SUp8 = St<8, true, true, true, true>;
type SDn8 = St<8, false, true, true, true>;
type SDn16 = St<16, false, true, true, true>;
type SUp4NoDe = St<4, true, true, false, true>;

inst!(chunk_alloc_up1_k1, ob_chunk_alloc, LogAlloc, SUp1, 1, 512, 600, true);
inst!(chunk_alloc_dn1_k1, ob_chunk_alloc, LogAlloc, SDn1, 1, 512, 600, true);
inst!(chunk_alloc_up8_k2, ob_chunk_alloc, LogAlloc<u64>, SUp8, 2, 64, 300, true);
inst!(chunk_alloc_dn16_k2, ob_chunk_alloc, LogAlloc<Align32>, SDn16, 2, 64, 300, false);

inst!(chunk_prepare_up1, ob_chunk_prepare, LogAlloc, SUp1, 1, 256, 300);
inst!(chunk_prepare_dn8, ob_chunk_prepare, LogAlloc<u64>, SDn8, 1, 256, 300);

inst!(reset_to_up1_k2, unwind 4, ob_reset_to, LogAlloc, SUp1, 2, 64);
inst!(reset_to_dn8_k2, unwind 4, ob_reset_to, LogAlloc<u64>, SDn8, 2, 64);

inst!(claim_up1, unwind 4, ob_claim, LogAlloc, SUp1, 2, 64);
inst!(claim_dn8, unwind 3, ob_claim, LogAlloc, SDn8, 1, 64);

#[kani::proof]
pub(crate) fn align_to_up1_to16() {
    ob_align_to::<LogAlloc, SUp1, 16>(1, 128);
}
#[kani::proof]
pub(crate) fn align_to_dn1_to8() {
    ob_align_to::<LogAlloc<u64>, SDn1, 8>(2, 64);
}
#[kani::proof]
pub(crate) fn align_to_up8_to4() {
    ob_align_to::<LogAlloc, SUp8, 4>(1, 128);
}

inst!(deallocate_up1, ob_deallocate, LogAlloc, SUp1, 2, 64);
inst!(deallocate_up8, ob_deallocate, LogAlloc, SUp8, 2, 64);
inst!(deallocate_dn8, ob_deallocate, LogAlloc<u64>, SDn8, 2, 64);
inst!(deallocate_up4_nodealloc, ob_deallocate, LogAlloc, SUp4NoDe, 1, 128);

inst!(bump_alloc_up1_k2, unwind 4, ob_bump_alloc, LogAlloc, SUp1, 2, 64, 200, true);
inst!(bump_alloc_dn8_k2, unwind 4, ob_bump_alloc_nogrow, LogAlloc<u64>, SDn8, 2, 64, 200);
inst!(bump_alloc_up8_k3, unwind 5, ob_bump_alloc, LogAlloc, SUp8, 3, 64, 120, false);
// one small chunk whose header is a large part of it: the growth rule (twice the SIZE, not the capacity) is visible
inst!(bump_alloc_up1_k1, unwind 4, ob_bump_alloc, LogAlloc, SUp1, 1, 64, 40, true);
inst!(bump_alloc_up8_u64_k1, unwind 4, ob_bump_alloc, LogAlloc<u64>, SUp8, 1, 64, 40, false);

inst!(reset_up1_k3, unwind 5, ob_reset, LogAlloc, SUp1, 3, 64);
inst!(reset_dn8_k2, unwind 4, ob_reset, LogAlloc<Align32>, SDn8, 2, 64);
inst!(reset_to_start_up1_k3, unwind 5, ob_reset_to_start_and_drop, LogAlloc, SUp1, 3, 64);
inst!(reset_to_start_dn8_k2, unwind 4, ob_reset_to_start_and_drop, LogAlloc<u64>, SDn8, 2, 64);

inst!(stats_up1_zst_k3, unwind 5, ob_stats, LogAlloc, SUp1, 3, 64, 1);
inst!(stats_dn8_zst_k2, unwind 4, ob_stats, LogAlloc, SDn8, 2, 64, 1);
inst!(stats_up1_u64_k2, unwind 4, ob_stats, LogAlloc<u64>, SUp1, 2, 64, 0);
inst!(stats_dn1_align32_k2, unwind 4, ob_stats, LogAlloc<Align32>, SDn1, 2, 64, 1);


// ---- instantiation matrix for the cheap header-only contracts (every MIN_ALIGN x direction, stateful / over-aligned
//      base allocators, DEALLOCATES=false) and over-granting base allocators
macro_rules! matrix {
    ($($name:ident: $f:ident, $A:ty, $ma:literal, $up:literal, $de:literal, ($($arg:expr),*));*) => {
        $(
            #[kani::proof]
            #[kani::unwind(4)]
            pub(crate) fn $name() {
                $f::<$A, St<$ma, $up, true, $de, true>>($($arg),*);
            }
        )*
    };
}
matrix!(
    chunk_alloc_m_up2: ob_chunk_alloc, LogAlloc, 2, true, true, (1, 128, 200, true);
    chunk_alloc_m_up4: ob_chunk_alloc, LogAlloc<u64>, 4, true, true, (1, 128, 200, true);
    chunk_alloc_m_up16: ob_chunk_alloc, LogAlloc, 16, true, true, (2, 64, 200, true);
    chunk_alloc_m_dn2: ob_chunk_alloc, LogAlloc, 2, false, true, (1, 128, 200, true);
    chunk_alloc_m_dn4: ob_chunk_alloc, LogAlloc<Align32>, 4, false, true, (1, 128, 200, true);
    chunk_alloc_m_dn8: ob_chunk_alloc, LogAlloc<u64>, 8, false, true, (2, 64, 200, true);
    deallocate_m_up2: ob_deallocate, LogAlloc, 2, true, true, (2, 64);
    deallocate_m_up4: ob_deallocate, LogAlloc<u64>, 4, true, true, (2, 64);
    deallocate_m_up16: ob_deallocate, LogAlloc, 16, true, true, (2, 64);
    deallocate_m_dn1: ob_deallocate, LogAlloc, 1, false, true, (2, 64);
    deallocate_m_dn2: ob_deallocate, LogAlloc<Align32>, 2, false, true, (1, 128);
    deallocate_m_dn4: ob_deallocate, LogAlloc, 4, false, true, (2, 64);
    deallocate_m_dn16: ob_deallocate, LogAlloc, 16, false, true, (2, 64);
    deallocate_m_dn8_nodealloc: ob_deallocate, LogAlloc, 8, false, false, (2, 64);
    chunk_prepare_m_up4: ob_chunk_prepare, LogAlloc, 4, true, true, (1, 256, 200);
    chunk_prepare_m_up16: ob_chunk_prepare, LogAlloc, 16, true, true, (1, 256, 200);
    chunk_prepare_m_dn1: ob_chunk_prepare, LogAlloc, 1, false, true, (1, 256, 200);
    chunk_prepare_m_dn16: ob_chunk_prepare, LogAlloc<Align32>, 16, false, true, (1, 256, 200);
    reset_to_m_up16: ob_reset_to, LogAlloc, 16, true, true, (2, 64);
    reset_to_m_dn2: ob_reset_to, LogAlloc<Align32>, 2, false, true, (2, 64)
);

/// Over-granting base allocator (grants 24 bytes more than requested: not a multiple of 16, so `align_size`
/// has to round down): constructors still establish wf with the grant-derived geometry, alloc contract holds,
/// every chunk is released with a size between requested and granted.
pub(crate) fn ob_overgrant<A, S>(k: usize, hint: usize, over: usize)
where
    A: crate::BaseAllocator<S::GuaranteedAllocated> + Default,
    S: BumpAllocatorSettings,
{
    let mut a = Arena::<A, S>::build_over(k, hint, over);
    kani::assert(a.wf(), "C10.overgrant.constructors_establish_wf");
    let mut i = 0;
    while i < k {
        let g = unsafe { GRANTS[i] };
        let geo = a.geo(i);
        kani::assert(g.granted == g.req_size + over && geo.size >= g.req_size && geo.size <= g.granted, "C05.overgrant.chunk_size_between_requested_and_granted");
        kani::assert(geo.size > g.req_size || over < 16, "C12.overgrant.extra_memory_is_used");
        i += 1;
    }
    a.havoc();
    let ci = a.cur;
    let layout = any_layout(100, 5);
    let r = a.bump.chunk.get().alloc(CustomLayout(layout));
    if let Some(p) = r {
        let addr = p.as_ptr() as usize;
        let g = a.geo(ci);
        kani::assert(al(addr, layout.align()) && addr >= g.content_start && addr + layout.size() <= g.content_end, "C01.overgrant.alloc_inside_content");
    }
    kani::assert(a.wf(), "C10.overgrant.wf");
    let st = a.bump.stats();
    kani::assert(st.count() == k && st.allocated() == a.allocated_bytes(), "C10.overgrant.stats");
    unsafe { a.bump.manually_drop() };
    kani::assert(live_grants() == 0, "C05.overgrant.every_chunk_returned_once_with_fitting_size");
    kani::cover!(r.is_some(), "alloc-ok");
}

/// `append_for` (the slow path of every allocation, and `reserve`) with an over-granting base allocator (power-of-two size regime only: page-sized chunks exhaust CBMC's memory, and
/// Kani rejects blocks that are only partly backed by memory): the appended chunk can hold the layout that caused it, its size is a
/// multiple of 16 and it is at least twice the previous chunk less 16 bytes (C12 growth rule: twice the SIZE - not the
/// capacity - of the previous chunk).
pub(crate) fn ob_append_growth<A, S>(hint: usize, over: usize, max_size: usize)
where
    A: crate::BaseAllocator<S::GuaranteedAllocated> + Default,
    S: BumpAllocatorSettings,
{
    let mut a = Arena::<A, S>::build_over(1, hint, over);
    unsafe { OVERGRANT = over };
    let layout = any_layout(max_size, 4);
    let g0 = a.geo(0);
    let r = a.chunk(0).append_for::<AllocError>(layout);
    match r {
        Ok(c1) => {
            let g1 = geo::<A, S>(unsafe { GRANTS[1] });
            kani::assert(g1.size % 16 == 0, "C12.append.size_multiple_of_16");
            kani::assert(g1.size + 16 >= 2 * g0.size, "C12.append.new_chunk_at_least_twice_the_previous_less_16");
            kani::assert(c1.alloc(CustomLayout(layout)).is_some(), "C12.append.causing_layout_fits");
            kani::assert(snap(a.chunk(0).header()).next == g1.header && snap(c1.header()).prev == g0.header, "C10.append.linked_both_ways");
        }
        Err(_) => kani::assert(false, "C07.append.not_refused_succeeds"),
    }
    unsafe { OVERGRANT = 0 };
    unsafe { a.bump.manually_drop() };
    kani::assert(live_grants() == 0, "C05.append.every_chunk_returned_once");
    kani::cover!(r.is_ok(), "appended");
}

matrix!(
    overgrant_up1: ob_overgrant, LogAlloc, 1, true, true, (2, 64, 24);
    overgrant_dn8: ob_overgrant, LogAlloc<u64>, 8, false, true, (2, 64, 24);
    overgrant_dn1_align32: ob_overgrant, LogAlloc<Align32>, 1, false, true, (2, 64, 40);
    overgrant_up16_k3: ob_overgrant, LogAlloc, 16, true, true, (3, 64, 8);
    append_growth_up1_small: ob_append_growth, LogAlloc, 1, true, true, (64, 24, 40)
);
