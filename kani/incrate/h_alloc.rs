//! The provided methods of the crate's own `Allocator` trait (`src/alloc.rs`): `allocate_zeroed`, `grow`,
//! `grow_zeroed`, `shrink` as every base allocator and wrapper that does not override them gets them (C02 / C07).
//! Self-contained on purpose (the verdict cache keys a harness by its own file).
use core::{alloc::Layout, cell::Cell, cell::UnsafeCell, ptr::NonNull};

use crate::alloc::{AllocError, Allocator};

const B: usize = 16;

/// two fixed blocks; hands out the one that is free; logs every deallocation
struct Two {
    a: UnsafeCell<[u8; B]>,
    b: UnsafeCell<[u8; B]>,
    a_used: Cell<bool>,
    b_used: Cell<bool>,
    refuse: Cell<bool>,
    deallocs: Cell<usize>,
    last_dealloc: Cell<(usize, usize, usize)>,
}

unsafe impl Allocator for Two {
    fn allocate(&self, layout: Layout) -> Result<NonNull<[u8]>, AllocError> {
        if self.refuse.get() || layout.size() > B || layout.align() > 1 {
            return Err(AllocError);
        }
        let p = if !self.a_used.get() {
            self.a_used.set(true);
            self.a.get() as *mut u8
        } else if !self.b_used.get() {
            self.b_used.set(true);
            self.b.get() as *mut u8
        } else {
            return Err(AllocError);
        };
        Ok(NonNull::slice_from_raw_parts(unsafe { NonNull::new_unchecked(p) }, layout.size()))
    }
    unsafe fn deallocate(&self, ptr: NonNull<u8>, layout: Layout) {
        self.deallocs.set(self.deallocs.get() + 1);
        self.last_dealloc.set((ptr.as_ptr() as usize, layout.size(), layout.align()));
        if ptr.as_ptr() == self.a.get() as *mut u8 {
            self.a_used.set(false);
        } else {
            self.b_used.set(false);
        }
    }
}

fn two() -> Two {
    Two { a: UnsafeCell::new(kani::any()), b: UnsafeCell::new(kani::any()), a_used: Cell::new(false), b_used: Cell::new(false), refuse: Cell::new(false), deallocs: Cell::new(0), last_dealloc: Cell::new((0, 0, 0)) }
}

fn ob_alloc_zeroed_default(via_ref: bool) {
    let al = two();
    let s_new: usize = kani::any();
    kani::assume(s_new <= B);
    // fully qualified: `(&al).allocate_zeroed(..)` would resolve to `Two`'s own method, not to the blanket impl for `&A`
    let r = if via_ref { <&Two as Allocator>::allocate_zeroed(&&al, Layout::from_size_align(s_new, 1).unwrap()) } else { al.allocate_zeroed(Layout::from_size_align(s_new, 1).unwrap()) };
    let Ok(p) = r else {
        kani::assert(false, "C07.allocate_zeroed.not_refused_succeeds");
        return;
    };
    kani::assert(p.len() >= s_new, "C01.allocate_zeroed.large_enough");
    if s_new > 0 {
        let j: usize = kani::any();
        kani::assume(j < s_new);
        kani::assert(unsafe { *(p.as_ptr() as *mut u8).add(j) } == 0, "C02.allocate_zeroed.every_byte_zero");
    }
    kani::cover!(s_new > 0, "ran");
}

/// `op`: 0 grow, 1 grow_zeroed, 2 shrink
fn ob_alloc_defaults(op: u8, via_ref: bool) {
    let al = two();
    let (s_old, s_new): (usize, usize) = (kani::any(), kani::any());
    kani::assume(s_old <= B && s_new <= B);
    let growing = op < 2;
    kani::assume(if growing { s_new >= s_old } else { s_new <= s_old });
    let old = Layout::from_size_align(s_old, 1).unwrap();
    let new = Layout::from_size_align(s_new, 1).unwrap();
    let p0 = if via_ref { <&Two as Allocator>::allocate(&&al, old).unwrap() } else { al.allocate(old).unwrap() };
    let base0 = p0.as_ptr() as *mut u8;
    // content of the old block
    let j: usize = kani::any();
    let keep = if growing { s_old } else { s_new };
    kani::assume(j < B);
    let before = unsafe { *base0.add(j) };
    al.refuse.set(kani::any());
    let ptr0 = unsafe { NonNull::new_unchecked(base0) };
    let r = unsafe {
        match (op, via_ref) {
            (0, false) => al.grow(ptr0, old, new),
            (0, true) => <&Two as Allocator>::grow(&&al, ptr0, old, new),
            (1, false) => al.grow_zeroed(ptr0, old, new),
            (1, true) => <&Two as Allocator>::grow_zeroed(&&al, ptr0, old, new),
            (_, false) => al.shrink(ptr0, old, new),
            (_, true) => <&Two as Allocator>::shrink(&&al, ptr0, old, new),
        }
    };
    match r {
        Ok(np) => {
            let nb = np.as_ptr() as *mut u8;
            kani::assert(np.len() >= s_new, "C01.alloc_default.new_block_large_enough");
            if j < keep {
                kani::assert(unsafe { *nb.add(j) } == before, "C02.alloc_default.prefix_preserved");
            }
            if op == 1 && j >= s_old && j < s_new {
                kani::assert(unsafe { *nb.add(j) } == 0, "C02.alloc_default.grow_zeroed_tail_is_zero");
            }
            kani::assert(al.deallocs.get() == 1 && al.last_dealloc.get() == (base0 as usize, s_old, 1), "C05.alloc_default.old_block_released_once_with_its_layout");
        }
        Err(_) => {
            kani::assert(al.refuse.get(), "C07.alloc_default.error_only_when_refused");
            kani::assert(al.deallocs.get() == 0 && unsafe { *base0.add(j) } == before, "C07.alloc_default.error_keeps_the_old_block");
        }
    }
    kani::cover!(r.is_ok() && keep > 0, "served");
    kani::cover!(r.is_err(), "refused");
}

macro_rules! allocdef {
    ($($name:ident: $op:expr, $via:expr;)*) => {$(
        #[kani::proof]
        #[kani::unwind(20)]
        pub(crate) fn $name() {
            ob_alloc_defaults($op, $via);
        }
    )*};
}
allocdef! {
    alloc_default_grow: 0, false;
    alloc_default_grow_via_ref: 0, true;
    alloc_default_grow_zeroed: 1, false;
    alloc_default_grow_zeroed_via_ref: 1, true;
    alloc_default_shrink: 2, false;
    alloc_default_shrink_via_ref: 2, true;
}
#[kani::proof]
#[kani::unwind(20)]
pub(crate) fn alloc_default_allocate_zeroed() {
    ob_alloc_zeroed_default(false);
}
#[kani::proof]
#[kani::unwind(20)]
pub(crate) fn alloc_default_allocate_zeroed_via_ref() {
    ob_alloc_zeroed_default(true);
}
