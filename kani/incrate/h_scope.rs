//! Layer II: scopes, guards, alignment regions, claim guards, `alloc_try_with`, the unallocated
//! state -- contracts on the `BumpScope`-level entry points (C03, C14, C18, C05, C07).
use core::{alloc::Layout, ptr::NonNull};

use super::{h_arena::*, spec::*, state::*};
use crate::{
    BumpScope, BumpScopeGuard,
    alloc::AllocError,
    polyfill::{transmute_mut, transmute_ref},
    raw_bump::RawBump,
    settings::BumpAllocatorSettings,
    traits::{BumpAllocator, BumpAllocatorScope},
};

/// A nondeterministic workload inside a scope: nothing / one allocation (which may have to move
/// to the next chunk; the base allocator refuses new chunks) / two allocations.
fn workload<A, S2>(raw: &RawBump<A, S2>, max_size: usize) -> usize
where
    A: crate::BaseAllocator<S2::GuaranteedAllocated>,
    S2: BumpAllocatorSettings,
{
    workload_n(raw, max_size, 2)
}

fn workload_n<A, S2>(raw: &RawBump<A, S2>, max_size: usize, max_n: u8) -> usize
where
    A: crate::BaseAllocator<S2::GuaranteedAllocated>,
    S2: BumpAllocatorSettings,
{
    let n: u8 = kani::any();
    kani::assume(n <= max_n);
    let mut done = 0;
    if n >= 1 {
        let l = any_layout(max_size, 5);
        if let Ok(p) = raw.alloc::<AllocError>(l) {
            kani::assert(al(p.as_ptr() as usize, l.align()), "C01.scope.alloc_aligned");
            done += 1;
        }
        kani::assert(al(raw.chunk.get().pos().as_ptr() as usize, S2::MIN_ALIGN), "C18.scope.position_aligned_after_alloc");
    }
    if n >= 2 {
        let l = any_layout(max_size, 3);
        if raw.alloc::<AllocError>(l).is_ok() {
            done += 1;
        }
        kani::assert(al(raw.chunk.get().pos().as_ptr() as usize, S2::MIN_ALIGN), "C18.scope.position_aligned_after_alloc");
    }
    done
}

/// `BumpScopeGuard::{new, scope, reset, drop}` and `BumpAllocator::scoped` (C03).
pub(crate) fn ob_scope_guard<A, S>(k: usize, hint: usize, via_closure: bool)
where
    A: crate::BaseAllocator<S::GuaranteedAllocated> + Default,
    S: BumpAllocatorSettings,
{
    let mut a = Arena::<A, S>::build(k, hint);
    a.havoc();
    let c0 = a.cur;
    let at_entry = a.snaps();
    let bytes = a.allocated_bytes();
    let (wp, wa) = any_byte_in_grants(k);
    let w_alloc = a.is_allocated(wa);
    let w_old = unsafe { *wp };
    unsafe { BUDGET = 0 };
    let mut did = 0;
    if via_closure {
        let scope: &mut BumpScope<'_, A, S> = unsafe { transmute_mut(&mut a.bump) };
        did = scope.scoped(|inner| workload(&inner.raw, 40));
    } else {
        let mut guard = BumpScopeGuard::new(&mut a.bump);
        did += workload_n(&guard.scope().raw, 40, 1);
        guard.reset();
        // after reset: identical to entry, and the scope is usable again
        did += workload_n(&guard.scope().raw, 40, 1);
        drop(guard);
    }
    unsafe { BUDGET = usize::MAX };
    let after = a.snaps();
    kani::assert(a.cur_index() == c0, "C03.scope_exit.current_chunk_restored");
    kani::assert(after[c0].pos == at_entry[c0].pos, "C03.scope_exit.position_restored");
    kani::assert(a.allocated_bytes() == bytes, "C03.scope_exit.allocated_bytes_restored");
    let mut i = 0;
    while i < c0 {
        kani::assert(after[i] == at_entry[i], "C03.scope_exit.earlier_chunks_untouched");
        i += 1;
    }
    kani::assert(a.wf(), "C10.scope_exit.wf");
    kani::assert(unsafe { DEALLOC_CALLS } == 0 && live_grants() == k, "C05.scope_exit.releases_none");
    // every allocation made before the scope is intact
    kani::assert(!w_alloc || (a.is_allocated(wa) && unsafe { *wp } == w_old), "C03.scope_exit.earlier_data_intact");
    kani::cover!(did >= 1, "allocated-inside");
    kani::cover!(did == 0, "nothing-inside");
}

/// `BumpAllocatorScope::aligned::<N>` and `BumpAllocator::scoped_aligned::<N>` (C18, C03).
pub(crate) fn ob_aligned<A, S, const N: usize>(k: usize, hint: usize, scoped: bool)
where
    A: crate::BaseAllocator<S::GuaranteedAllocated> + Default,
    S: BumpAllocatorSettings,
    crate::settings::MinimumAlignment<N>: crate::settings::SupportedMinimumAlignment,
{
    let mut a = Arena::<A, S>::build(k, hint);
    a.havoc();
    let c0 = a.cur;
    let at_entry = a.snaps();
    let bytes = a.allocated_bytes();
    let (wp, wa) = any_byte_in_grants(k);
    let w_alloc = a.is_allocated(wa);
    let w_old = unsafe { *wp };
    unsafe { BUDGET = 0 };
    let scope: &mut BumpScope<'_, A, S> = unsafe { transmute_mut(&mut a.bump) };
    let did = if scoped {
        scope.scoped_aligned::<N, usize>(|inner| {
            kani::assert(al(inner.raw.chunk.get().pos().as_ptr() as usize, N), "C18.scoped_aligned.aligned_at_entry");
            workload(&inner.raw, 24)
        })
    } else {
        scope.aligned::<N, usize>(|inner| {
            kani::assert(al(inner.raw.chunk.get().pos().as_ptr() as usize, N), "C18.aligned.aligned_at_entry");
            workload(&inner.raw, 24)
        })
    };
    unsafe { BUDGET = usize::MAX };
    let after = a.snaps();
    let ci = a.cur_index();
    kani::assert(ci < k && al(after[ci].pos, S::MIN_ALIGN), "C18.region_exit.position_multiple_of_outer_min_align");
    if scoped {
        kani::assert(ci == c0 && after[c0].pos == at_entry[c0].pos && a.allocated_bytes() == bytes, "C18.scoped_aligned.exactly_entry_position");
    } else {
        kani::assert(ci >= c0, "C18.aligned.moves_only_forward");
    }
    kani::assert(a.wf(), "C10.region_exit.wf");
    kani::assert(!w_alloc || (a.is_allocated(wa) && unsafe { *wp } == w_old), "C18.region_exit.earlier_data_intact");
    kani::cover!(did >= 1, "allocated-inside");
}

/// `generic_alloc_try_with` / `generic_alloc_try_with_mut` (C03 Err branch, C15/C01 Ok branch).
pub(crate) fn ob_try_with<A, S>(k: usize, hint: usize, mutable: bool)
where
    A: crate::BaseAllocator<S::GuaranteedAllocated> + Default,
    S: BumpAllocatorSettings,
{
    let mut a = Arena::<A, S>::build(k, hint);
    a.havoc();
    let before = a.snaps();
    let c0 = a.cur;
    let bytes = a.allocated_bytes();
    let fail: bool = kani::any();
    let v: u32 = kani::any();
    unsafe { BUDGET = 0 };
    let scope: &mut BumpScope<'_, A, S> = unsafe { transmute_mut(&mut a.bump) };
    let r = if mutable {
        scope.generic_alloc_try_with_mut::<AllocError, u32, u8>(|| if fail { Err(7) } else { Ok(v) })
    } else {
        scope.generic_alloc_try_with::<AllocError, u32, u8>(|| if fail { Err(7) } else { Ok(v) })
    };
    unsafe { BUDGET = usize::MAX };
    let (k_err, k_ok, k_fail) = (matches!(r, Ok(Err(_))), matches!(r, Ok(Ok(_))), r.is_err());
    match r {
        Ok(Err(e)) => {
            kani::assert(e == 7 && fail, "C03.try_with.error_passed_through");
            kani::assert(a.cur_index() == c0 && a.snaps()[c0].pos == before[c0].pos && a.allocated_bytes() == bytes, "C03.try_with.err_restores_position_and_bytes");
        }
        Ok(Ok(b)) => {
            let p = crate::BumpBox::into_raw(b);
            let addr = p.as_ptr() as usize;
            kani::assert(!fail && unsafe { *p.as_ptr() } == v, "C17.try_with.value_stored");
            kani::assert(al(addr, 4), "C01.try_with.aligned");
            let ci = a.cur_index();
            let pos = a.snaps()[ci].pos;
            kani::assert(al(pos, S::MIN_ALIGN), "C10.try_with.position_aligned");
            if S::UP {
                kani::assert(is_up((addr + 4) as u128, S::MIN_ALIGN as u128, pos as u128), "C15.try_with.position_at_end_of_value");
            } else {
                kani::assert(is_down(addr as u128, S::MIN_ALIGN as u128, pos as u128), "C15.try_with.position_at_start_of_value");
            }
            kani::assert(a.is_allocated(addr) && a.is_allocated(addr + 3), "C01.try_with.value_allocated");
        }
        Err(_) => {
            kani::assert(a.allocated_bytes() >= bytes, "C07.try_with.alloc_failure_keeps_allocations");
        }
    }
    kani::assert(a.wf(), "C10.try_with.wf");
    kani::cover!(k_err, "closure-err");
    kani::cover!(k_ok, "closure-ok");
    kani::cover!(k_fail, "alloc-failed");
}

/// The unallocated state (C05/C10/C07/C03): no base-allocator call until memory is needed, stats zero,
/// first allocation creates exactly one chunk in which the request fits, checkpoint of the
/// unallocated state resets to the very start.
pub(crate) fn ob_unallocated<S>(max_size: usize)
where
    S: BumpAllocatorSettings<GuaranteedAllocated = crate::settings::False>,
{
    log_reset();
    let bump = RawBump::<LogAlloc, S>::new();
    let st = bump.stats();
    kani::assert(st.count() == 0 && st.size() == 0 && st.capacity() == 0 && st.allocated() == 0 && st.remaining() == 0, "C10.unallocated.stats_all_zero");
    kani::assert(!bump.is_claimed() && bump.allocator().is_none(), "C10.unallocated.no_allocator");
    let cp = bump.checkpoint();
    bump.reset();
    bump.reset_to_start();
    bump.align_to::<crate::settings::MinimumAlignment<16>>();
    unsafe { bump.reset_to(cp) };
    // deallocate / shrink of nothing-in-particular are no-ops; ZST-sized requests aside, nothing called the base allocator
    kani::assert(unsafe { ALLOC_CALLS == 0 && DEALLOC_CALLS == 0 }, "C05.unallocated.never_calls_base_allocator");
    let layout = any_layout(max_size, 6);
    unsafe { MAY_FAIL = true };
    let r = bump.alloc::<AllocError>(layout);
    unsafe { MAY_FAIL = false };
    match r {
        Ok(p) => {
            let g = geo::<LogAlloc, S>(unsafe { GRANTS[0] });
            let addr = p.as_ptr() as usize;
            kani::assert(unsafe { N_GRANTS } == 1, "C12.unallocated.exactly_one_chunk");
            kani::assert(al(addr, layout.align()) && addr >= g.content_start && addr + layout.size() <= g.content_end, "C12.unallocated.request_fits_in_first_chunk");
            let s = snap(bump.chunk.get().header());
            kani::assert(s.prev == 0 && s.next == 0 && bump.chunk.get().header().as_ptr() as usize == g.header, "C10.unallocated.first_chunk_geometry");
            // the unallocated checkpoint rewinds to the very start
            unsafe { bump.reset_to(cp) };
            let s = snap(bump.chunk.get().header());
            kani::assert(s.pos == (if S::UP { g.content_start } else { g.content_end }), "C03.unallocated_checkpoint.resets_to_start");
        }
        Err(_) => {
            kani::assert(unsafe { N_GRANTS } == 0 && bump.chunk.get().is_unallocated(), "C07.unallocated.failure_leaves_unallocated");
        }
    }
    kani::cover!(r.is_ok(), "first-chunk-created");
    kani::cover!(r.is_err(), "allocation-failed");
}

/// A second claim panics (C14).
pub(crate) fn ob_second_claim_panics<A, S>()
where
    A: crate::BaseAllocator<S::GuaranteedAllocated> + Default,
    S: BumpAllocatorSettings,
{
    let a = Arena::<A, S>::build(1, 64);
    let _g = a.bump.claim();
    let _h = a.bump.claim();
    // unreachable: the harness is #[kani::should_panic]
    kani::assert(false, "C14.second_claim.must_not_return");
}

/// Claiming an UNALLOCATED arena (C14): the guard starts from the unallocated state; whether or not a chunk
/// was created through it, after reclaim the original is unclaimed and continues exactly where the guard stopped.
pub(crate) fn ob_claim_unallocated<S>()
where
    S: BumpAllocatorSettings<GuaranteedAllocated = crate::settings::False>,
{
    log_reset();
    let bump = RawBump::<LogAlloc, S>::new();
    let claimant = bump.claim();
    kani::assert(bump.is_claimed() && claimant.chunk.get().is_unallocated(), "C14.claim_unallocated.guard_holds_unallocated_state");
    kani::assert(bump.alloc::<AllocError>(Layout::new::<u32>()).is_err(), "C14.claim_unallocated.original_fails");
    let use_guard: bool = kani::any();
    if use_guard {
        unsafe { BUDGET = 0 };
        // the base allocator refuses: the guard stays unallocated, but the attempt went through it
        kani::assert(claimant.alloc::<AllocError>(Layout::new::<u32>()).is_err(), "C07.claim_unallocated.guard_alloc_refused");
        unsafe { BUDGET = usize::MAX };
    }
    let guard_chunk = claimant.chunk.get().header().as_ptr() as usize;
    bump.reclaim(&claimant);
    kani::assert(!bump.is_claimed(), "C14.claim_unallocated.reclaim_unclaims");
    kani::assert(bump.chunk.get().header().as_ptr() as usize == guard_chunk, "C14.claim_unallocated.continues_where_guard_stopped");
    kani::assert(bump.chunk.get().is_unallocated(), "C14.claim_unallocated.still_unallocated");
    // and the original can be claimed again (a second claim would panic if it were still claimed)
    let again = bump.claim();
    bump.reclaim(&again);
    kani::assert(!bump.is_claimed(), "C14.claim_unallocated.can_be_claimed_again");
    kani::cover!(use_guard, "guard-used");
}

/// Size overflow and `reserve` (C07): an overflowing request is an error, never a panic or a wrap;
/// a failed request changes nothing; `reserve` that needs no new chunk changes nothing either.
pub(crate) fn ob_overflow_and_reserve<A, S>(k: usize, hint: usize)
where
    A: crate::BaseAllocator<S::GuaranteedAllocated> + Default,
    S: BumpAllocatorSettings,
{
    let mut a = Arena::<A, S>::build(k, hint);
    a.havoc();
    let before = a.snaps();
    let ci = a.cur;
    unsafe { BUDGET = 0 };
    let n: usize = kani::any();
    let r = a.bump.alloc_slice::<AllocError, u64>(n);
    if n > (isize::MAX as usize) / 8 {
        kani::assert(r.is_err(), "C07.alloc_slice.overflowing_length_is_an_error");
    }
    if r.is_err() {
        kani::assert(a.allocated_bytes_of_current_only() <= usize::MAX && a.wf(), "C07.alloc_slice.err_keeps_invariant");
    }
    let n2: usize = kani::any();
    let r2 = a.bump.prepare_slice_allocation::<AllocError, u32>(n2);
    if n2 > (isize::MAX as usize) / 4 {
        kani::assert(r2.is_err(), "C07.prepare_slice.overflowing_length_is_an_error");
    }
    let add: usize = kani::any();
    let s1 = a.snaps();
    let c1 = a.cur_index();
    let r3 = a.bump.reserve::<AllocError>(add);
    // no new chunk can be created (budget 0): reserve never moves anything, Ok iff the remaining capacity suffices
    kani::assert(same_headers(k, &s1, &a.snaps()) && a.cur_index() == c1, "C07.reserve.moves_nothing");
    let st = a.bump.stats();
    kani::assert(r3.is_ok() == (st.remaining() >= add) || add == 0, "C07.reserve.ok_iff_capacity_suffices_when_base_allocator_refuses");
    kani::assert(a.wf() && unsafe { N_GRANTS } == k, "C07.overflow.wf_and_no_leak");
    unsafe { BUDGET = usize::MAX };
    kani::cover!(r.is_ok(), "slice-ok");
    kani::cover!(n > (isize::MAX as usize) / 8, "slice-overflow");
    kani::cover!(r3.is_ok() && add > 0, "reserve-ok");
    kani::cover!(r3.is_err(), "reserve-refused");
}

/// `into_raw` / `from_raw` round trip (C05): the identity on the chunk pointer.
pub(crate) fn ob_raw_round_trip<A, S>(k: usize, hint: usize)
where
    A: crate::BaseAllocator<S::GuaranteedAllocated> + Default,
    S: BumpAllocatorSettings,
{
    let mut a = Arena::<A, S>::build(k, hint);
    a.havoc();
    let before = a.snaps();
    let h = a.bump.chunk.get().header().as_ptr() as usize;
    let raw = a.bump.clone().into_raw();
    let back = unsafe { RawBump::<A, S>::from_raw(raw) };
    kani::assert(back.chunk.get().header().as_ptr() as usize == h, "C05.into_raw_from_raw.identity");
    kani::assert(same_headers(k, &before, &a.snaps()) && unsafe { ALLOC_CALLS } == k && unsafe { DEALLOC_CALLS } == 0, "C05.into_raw_from_raw.touches_nothing");
    kani::cover!(true, "reached");
}

/// `ensure_satisfies_settings` (with_settings / borrow_mut_with_settings) on an allocated arena (C18):
/// returns, position aligned to the new minimum alignment, nothing else changes.
pub(crate) fn ob_with_settings_allocated<A, S, NewS>(k: usize, hint: usize)
where
    A: crate::BaseAllocator<S::GuaranteedAllocated> + Default,
    S: BumpAllocatorSettings,
    NewS: BumpAllocatorSettings,
{
    ob_with_settings_allocated_w::<A, S, NewS>(k, hint, Some(|b| b.ensure_satisfies_settings_for_borrow_mut::<NewS>()), |b| b.ensure_satisfies_settings::<NewS>());
}

/// `which`: 0 = `Bump::with_settings` (`ensure_satisfies_settings`), 1 = `BumpScope::with_settings`
/// (`ensure_scope_satisfies_settings`), 2 = `borrow_mut_with_settings` (`..._for_borrow_mut`)
pub(crate) fn ob_with_settings_allocated_w<A, S, NewS>(k: usize, hint: usize, then_borrow_mut: Option<fn(&RawBump<A, S>)>, f: impl FnOnce(&RawBump<A, S>))
where
    A: crate::BaseAllocator<S::GuaranteedAllocated> + Default,
    S: BumpAllocatorSettings,
    NewS: BumpAllocatorSettings,
{
    let mut a = Arena::<A, S>::build(k, hint);
    a.havoc();
    let ci = a.cur;
    let bytes = a.allocated_bytes();
    f(&a.bump);
    let pos = a.snaps()[ci].pos;
    kani::assert(a.cur_index() == ci && al(pos, NewS::MIN_ALIGN) && al(pos, S::MIN_ALIGN), "C18.with_settings.position_aligned_to_new_min_align");
    kani::assert(a.allocated_bytes() >= bytes && a.allocated_bytes() - bytes < 16 && a.wf(), "C18.with_settings.data_intact");
    if let Some(g) = then_borrow_mut {
        g(&a.bump);
        kani::assert(a.snaps()[ci].pos == pos, "C18.borrow_mut_with_settings.idempotent_when_aligned");
    }
    kani::cover!(pos != a.geo(ci).content_start, "moved-or-inside");
}

/// conversions that require an allocated arena panic exactly when it is unallocated (C18)
pub(crate) fn ob_with_settings_unallocated<S, NewS>(expect_return: bool)
where
    S: BumpAllocatorSettings<GuaranteedAllocated = crate::settings::False>,
    NewS: BumpAllocatorSettings,
{
    log_reset();
    let bump = RawBump::<LogAlloc, S>::new();
    bump.ensure_satisfies_settings::<NewS>();
    if expect_return {
        kani::assert(bump.chunk.get().is_unallocated(), "C18.with_settings.unallocated_stays_unallocated");
    } else {
        kani::cover!(true, "must-not-reach: with_settings to GUARANTEED_ALLOCATED returned on an unallocated arena");
    }
}

/// `BumpScope::by_value` / `try_by_value` on an UNALLOCATED arena (C05): the chunk that gets created belongs to the
/// ORIGINAL arena - it is the original's current chunk afterwards, allocations through the by-value scope are visible
/// in the original, and dropping the original releases every chunk exactly once.
pub(crate) fn ob_by_value_unallocated<S>(panicking: bool)
where
    S: BumpAllocatorSettings<GuaranteedAllocated = crate::settings::False>,
{
    log_reset();
    let mut bump = RawBump::<LogAlloc, S>::new();
    {
        let scope: &mut BumpScope<'_, LogAlloc, S> = unsafe { crate::polyfill::transmute_mut(&mut bump) };
        let owned = if panicking {
            scope.by_value()
        } else {
            match scope.try_by_value() {
                Ok(o) => o,
                Err(_) => {
                    kani::assert(false, "C07.by_value.not_refused_succeeds");
                    return;
                }
            }
        };
        kani::assert(unsafe { N_GRANTS } == 1 && live_grants() == 1, "C05.by_value.exactly_one_chunk_created");
        kani::assert(owned.raw.alloc::<AllocError>(Layout::new::<u32>()).is_ok(), "C12.by_value.first_chunk_serves_a_small_request");
    }
    let g = geo::<LogAlloc, S>(unsafe { GRANTS[0] });
    kani::assert(!bump.chunk.get().is_unallocated() && bump.chunk.get().header().as_ptr() as usize == g.header, "C05.by_value.the_chunk_belongs_to_the_original");
    kani::assert(bump.stats().allocated() >= 4, "C05.by_value.allocations_are_visible_in_the_original");
    unsafe { bump.manually_drop() };
    kani::assert(live_grants() == 0 && unsafe { DEALLOC_CALLS } == 1, "C05.by_value.every_chunk_released_when_the_owner_is_dropped");
    kani::cover!(true, "by-value-on-unallocated");
}

/// by_value on an arena that already has chunks creates nothing and shares the current chunk
pub(crate) fn ob_by_value_allocated<A, S>(k: usize, hint: usize)
where
    A: crate::BaseAllocator<S::GuaranteedAllocated> + Default,
    S: BumpAllocatorSettings,
{
    let mut a = Arena::<A, S>::build(k, hint);
    a.havoc();
    let ci = a.cur;
    let before = a.snaps();
    let calls = unsafe { ALLOC_CALLS };
    {
        let scope: &mut BumpScope<'_, A, S> = unsafe { crate::polyfill::transmute_mut(&mut a.bump) };
        let owned = scope.try_by_value();
        kani::assert(owned.is_ok(), "C07.by_value.allocated_arena_succeeds");
        let owned = owned.unwrap();
        kani::assert(owned.raw.chunk.get().header().as_ptr() as usize == a.geo(ci).header, "C05.by_value.shares_the_current_chunk");
    }
    kani::assert(unsafe { ALLOC_CALLS } == calls && a.cur_index() == ci && a.snaps()[ci].pos == before[ci].pos, "C05.by_value.allocated_arena_unchanged");
    kani::assert(a.wf(), "C10.by_value.wf");
    kani::cover!(true, "by-value-on-allocated");
}

/// `BumpClaimGuard` (C14): new = claim, drop = reclaim, deref gives the claimant.
pub(crate) fn ob_claim_guard<A, S>(k: usize, hint: usize)
where
    A: crate::BaseAllocator<S::GuaranteedAllocated> + Default,
    S: BumpAllocatorSettings,
{
    let mut a = Arena::<A, S>::build(k, hint);
    a.havoc();
    let c0 = a.cur;
    let before = a.snaps();
    let bytes = a.allocated_bytes();
    unsafe { BUDGET = 0 };
    let did;
    let inner_scoped;
    {
        let scope: &BumpScope<'_, A, S> = unsafe { transmute_ref(&a.bump) };
        let mut guard = scope.claim();
        kani::assert(scope.raw.is_claimed(), "C14.guard.original_claimed_while_alive");
        kani::assert(scope.raw.alloc::<AllocError>(Layout::new::<u64>()).is_err(), "C14.guard.original_fails_while_alive");
        // ... every other request as well, for EVERY amount (0 included)
        let add: usize = kani::any();
        kani::assert(scope.raw.reserve::<AllocError>(add).is_err(), "C14.guard.original_reserve_fails_while_alive");
        kani::assert(scope.raw.make_allocated::<AllocError>().is_err(), "C14.guard.original_make_allocated_fails_while_alive");
        kani::assert(scope.raw.prepare_slice_allocation::<AllocError, u16>(kani::any()).is_err(), "C14.guard.original_prepare_fails_while_alive");
        kani::assert(scope.raw.alloc_slice::<AllocError, u8>(1).is_err(), "C14.guard.original_alloc_slice_fails_while_alive");
        did = workload_n(&guard.raw, 24, 1);
        // a scope opened through the guard is fully undone
        let p0 = guard.raw.chunk.get().pos().as_ptr() as usize;
        let h0 = guard.raw.chunk.get().header().as_ptr() as usize;
        inner_scoped = guard.scoped(|inner| workload_n(&inner.raw, 24, 1));
        kani::assert(guard.raw.chunk.get().pos().as_ptr() as usize == p0 && guard.raw.chunk.get().header().as_ptr() as usize == h0, "C14.guard.inner_scope_undone");
    }
    unsafe { BUDGET = usize::MAX };
    kani::assert(!a.bump.is_claimed(), "C14.guard.drop_unclaims");
    kani::assert(a.cur_index() >= c0 && a.cur_index() < k, "C14.guard.original_continues_on_a_real_chunk");
    kani::assert(a.allocated_bytes() >= bytes, "C14.guard.allocations_through_guard_stay_live");
    kani::assert(a.wf(), "C10.claim_guard.wf");
    kani::cover!(did >= 1, "guard-allocated");
    kani::cover!(inner_scoped >= 1, "inner-scope-allocated");
}

type SUp1 = St<1, true, true, true, true>;
type SDn1 = St<1, false, true, true, true>;
type SUp8 = St<8, true, true, true, true>;
type SDn8 = St<8, false, true, true, true>;
type SUp1Un = St<1, true, false, true, true>;
type SDn4Un = St<4, false, false, true, true>;

/// Dropping a never-used unallocated arena, and one whose only chunk request was refused: no base-allocator release.
pub(crate) fn ob_unallocated_drop<S>()
where
    S: BumpAllocatorSettings<GuaranteedAllocated = crate::settings::False>,
{
    log_reset();
    let mut bump = RawBump::<LogAlloc, S>::new();
    unsafe { BUDGET = 0 };
    let r = bump.alloc::<AllocError>(any_layout(64, 4));
    let r2 = bump.reserve::<AllocError>(kani::any());
    let r3 = bump.make_allocated::<AllocError>();
    kani::assert(r.is_err() && r3.is_err(), "C07.unallocated.refused_chunk_is_an_error");
    kani::assert(bump.chunk.get().is_unallocated(), "C07.unallocated.stays_unallocated");
    unsafe { bump.manually_drop() };
    kani::assert(unsafe { DEALLOC_CALLS == 0 } && live_grants() == 0, "C05.unallocated.drop_releases_nothing");
    kani::cover!(r2.is_err(), "reserve-refused");
}

inst!(scope_guard_up1, unwind 4, ob_scope_guard, LogAlloc, SUp1, 2, 64, false);
inst!(scope_guard_dn8, unwind 4, ob_scope_guard, LogAlloc<u64>, SDn8, 2, 64, false);
inst!(scoped_closure_up8, unwind 4, ob_scope_guard, LogAlloc, SUp8, 2, 64, true);
inst!(scoped_closure_dn1, unwind 4, ob_scope_guard, LogAlloc, SDn1, 2, 64, true);

#[kani::proof]
#[kani::unwind(4)]
pub(crate) fn aligned_up1_to16() {
    ob_aligned::<LogAlloc, SUp1, 16>(2, 64, false);
}
#[kani::proof]
#[kani::unwind(4)]
pub(crate) fn aligned_dn8_to1() {
    ob_aligned::<LogAlloc, SDn8, 1>(2, 64, false);
}
#[kani::proof]
#[kani::unwind(4)]
pub(crate) fn aligned_up8_to2() {
    ob_aligned::<LogAlloc, SUp8, 2>(2, 64, false);
}
#[kani::proof]
#[kani::unwind(4)]
pub(crate) fn scoped_aligned_dn1_to16() {
    ob_aligned::<LogAlloc, SDn1, 16>(2, 64, true);
}
#[kani::proof]
#[kani::unwind(4)]
pub(crate) fn scoped_aligned_up1_to8() {
    ob_aligned::<LogAlloc, SUp1, 8>(2, 64, true);
}

inst!(try_with_up1, unwind 4, ob_try_with, LogAlloc, SUp1, 2, 64, false);
inst!(try_with_dn8, unwind 4, ob_try_with, LogAlloc, SDn8, 2, 64, false);
inst!(try_with_mut_up8, unwind 4, ob_try_with, LogAlloc, SUp8, 2, 64, true);
inst!(try_with_mut_dn1, unwind 4, ob_try_with, LogAlloc, SDn1, 2, 64, true);
inst!(try_with_mut_dn16, unwind 4, ob_try_with, LogAlloc, St<16, false, true, true, true>, 2, 64, true);

#[kani::proof]
#[kani::unwind(3)]
pub(crate) fn unallocated_up1() {
    ob_unallocated::<SUp1Un>(300);
}

#[kani::proof]
#[kani::unwind(3)]
pub(crate) fn claim_unallocated_up1() {
    ob_claim_unallocated::<SUp1Un>();
}

#[kani::proof]
#[kani::unwind(3)]
pub(crate) fn claim_unallocated_dn4() {
    ob_claim_unallocated::<SDn4Un>();
}

#[kani::proof]
#[kani::unwind(3)]
pub(crate) fn unallocated_drop_dn4() {
    ob_unallocated_drop::<SDn4Un>();
}

#[kani::proof]
#[kani::unwind(3)]
#[kani::should_panic]
pub(crate) fn second_claim_panics_up1() {
    ob_second_claim_panics::<LogAlloc, SUp1>();
}

inst!(overflow_reserve_up1, unwind 4, ob_overflow_and_reserve, LogAlloc, SUp1, 2, 64);
inst!(overflow_reserve_dn8, unwind 4, ob_overflow_and_reserve, LogAlloc, SDn8, 2, 64);
inst!(raw_round_trip_up1, unwind 4, ob_raw_round_trip, LogAlloc, SUp1, 2, 64);

type SUp16 = St<16, true, true, true, true>;
type SDn16 = St<16, false, true, true, true>;
type SUp8Un = St<8, true, false, true, true>;
type SDn16Un = St<16, false, false, true, true>;
type SDn8Un = St<8, false, false, true, true>;

#[kani::proof]
#[kani::unwind(4)]
pub(crate) fn with_settings_up1_to16() {
    ob_with_settings_allocated::<LogAlloc, SUp1, SUp16>(2, 64);
}
#[kani::proof]
#[kani::unwind(4)]
pub(crate) fn with_settings_dn1_to8() {
    ob_with_settings_allocated::<LogAlloc, SDn1, SDn8>(2, 64);
}
#[kani::proof]
#[kani::unwind(4)]
pub(crate) fn by_value_unallocated_up1() {
    ob_by_value_unallocated::<SUp1Un>(true);
}
#[kani::proof]
#[kani::unwind(4)]
pub(crate) fn try_by_value_unallocated_dn4() {
    ob_by_value_unallocated::<SDn4Un>(false);
}
#[kani::proof]
#[kani::unwind(4)]
pub(crate) fn by_value_allocated_dn8() {
    ob_by_value_allocated::<LogAlloc, SDn8>(2, 64);
}
#[kani::proof]
#[kani::unwind(4)]
pub(crate) fn with_settings_scope_up1_to8() {
    ob_with_settings_allocated_w::<LogAlloc, SUp1, SUp8>(1, 64, Some(|b| b.ensure_satisfies_settings_for_borrow_mut::<SUp8>()), |b| b.ensure_scope_satisfies_settings::<SUp8>());
}
#[kani::proof]
#[kani::unwind(4)]
pub(crate) fn with_settings_scope_dn1_to16() {
    ob_with_settings_allocated_w::<LogAlloc, SDn1, SDn16>(2, 64, Some(|b| b.ensure_satisfies_settings_for_borrow_mut::<SDn16>()), |b| b.ensure_scope_satisfies_settings::<SDn16>());
}
#[kani::proof]
#[kani::unwind(4)]
pub(crate) fn with_settings_borrow_mut_dn1_to8() {
    ob_with_settings_allocated_w::<LogAlloc, SDn1, SDn8>(1, 64, None, |b| b.ensure_satisfies_settings_for_borrow_mut::<SDn8>());
}
#[kani::proof]
#[kani::unwind(4)]
pub(crate) fn with_settings_up1_to8_not_guaranteed() {
    ob_with_settings_allocated_w::<LogAlloc, SUp1, SUp8Un>(1, 64, None, |b| b.ensure_satisfies_settings::<SUp8Un>());
}
#[kani::proof]
#[kani::unwind(4)]
pub(crate) fn with_settings_dn1_to16_not_guaranteed() {
    ob_with_settings_allocated_w::<LogAlloc, SDn1, SDn16Un>(2, 64, None, |b| b.ensure_satisfies_settings::<SDn16Un>());
}
#[kani::proof]
#[kani::unwind(4)]
pub(crate) fn with_settings_unallocated_stays() {
    ob_with_settings_unallocated::<SDn4Un, SDn8Un>(true);
}
#[kani::proof]
#[kani::unwind(3)]
#[kani::should_panic]
pub(crate) fn with_settings_unallocated_to_guaranteed_panics() {
    ob_with_settings_unallocated::<SDn4Un, SDn8>(false);
}

inst!(claim_guard_up1, unwind 4, ob_claim_guard, LogAlloc, SUp1, 2, 64);
inst!(claim_guard_dn8, unwind 4, ob_claim_guard, LogAlloc, SDn8, 2, 64);
