//! In-crate Kani harness module.  Compiled INTO bump-scope only under `cfg(kani)` through the
//! hook in /repo/src/lib.rs (`#[path = "/verif/kani/incrate/mod.rs"] mod verif_kani;`).
//! Nothing here is code of the repository; every harness calls the real functions.
#![allow(dead_code, unused_imports, unused_variables, clippy::all, clippy::pedantic, missing_docs)]

pub(crate) mod spec;
pub(crate) mod state;
pub(crate) mod h_kernel;
pub(crate) mod h_arena;
pub(crate) mod h_realloc;
pub(crate) mod h_scope;
pub(crate) mod h_typed;
pub(crate) mod h_coll;
pub(crate) mod h_grow;
pub(crate) mod h_coll2;
pub(crate) mod h_selftest;
pub(crate) mod h_stub;
pub(crate) mod h_coll3;
pub(crate) mod h_owner;
pub(crate) mod h_alloc;
pub(crate) mod h_kernel2;
pub(crate) mod h_rev;
pub(crate) mod h_kernel3;

/// Concrete playback tests of failed obligations (generated on demand by vf/run_kani.py;
/// the file is empty unless a violation is being replayed).
#[cfg(test)]
mod playback {
    include!("/verif/build/kani/playback_tests.rs");
}
