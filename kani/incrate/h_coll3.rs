//! Fixed-capacity collections: the capacity arithmetic over the FULL `usize` domain (C07 / C08).
//! `try_reserve(_exact)` / `try_resize` of `FixedBumpVec` (sized and zero-sized elements) and `FixedBumpString`
//! succeed exactly when the request fits - for every `additional`, including those for which `len + additional`
//! overflows - and never change length or contents when they fail.
use core::mem::MaybeUninit;

use core::ptr::NonNull;

use crate::{BumpBox, FixedBumpString, FixedBumpVec};

// self-contained on purpose (no helper from another harness module): the verdict cache keys a harness by its own file
const CAP: usize = 5;

struct Sym {
    vals: [u8; CAP],
    len: usize,
}
impl Sym {
    fn any() -> Self {
        let len: usize = kani::any();
        kani::assume(len <= CAP);
        Sym { vals: kani::any(), len }
    }
}
fn fixed<'a>(buf: &'a mut [MaybeUninit<u8>; CAP], s: &Sym) -> FixedBumpVec<'a, u8> {
    let mut i = 0;
    while i < CAP {
        buf[i] = MaybeUninit::new(s.vals[i]);
        i += 1;
    }
    let b: BumpBox<'a, [MaybeUninit<u8>]> = unsafe { BumpBox::from_raw(NonNull::slice_from_raw_parts(NonNull::new_unchecked(buf.as_mut_ptr()), CAP)) };
    let mut v = FixedBumpVec::from_uninit(b);
    unsafe { v.set_len(s.len) };
    v
}

#[kani::proof]
#[kani::unwind(8)]
pub(crate) fn fixed_reserve_full_domain() {
    let s = Sym::any();
    let mut buf = [MaybeUninit::uninit(); CAP];
    let mut v = fixed(&mut buf, &s);
    let (cap, len) = (v.capacity(), v.len());
    kani::assert(cap == CAP && len == s.len, "harness: state as built");
    let add: usize = kani::any();
    let r = v.try_reserve(add);
    kani::assert(r.is_ok() == (add <= cap - len), "C07.fixed_vec.reserve_succeeds_exactly_when_it_fits");
    kani::assert(v.len() == len && v.capacity() == cap, "C07.fixed_vec.reserve_changes_neither_length_nor_capacity");
    let j: usize = kani::any();
    kani::assume(j < len);
    kani::assert(len == 0 || v[j] == s.vals[j], "C07.fixed_vec.reserve_keeps_contents");
    kani::cover!(r.is_err() && add > usize::MAX - 2 && len > 0, "overflowing-sum-rejected");
    kani::cover!(r.is_ok() && add > 0, "fits");
    core::mem::forget(v);
}

#[kani::proof]
#[kani::unwind(8)]
pub(crate) fn fixed_resize_full_domain() {
    let s = Sym::any();
    let mut buf = [MaybeUninit::uninit(); CAP];
    let mut v = fixed(&mut buf, &s);
    let (cap, len) = (v.capacity(), v.len());
    let new_len: usize = kani::any();
    let x: u8 = kani::any();
    let r = v.try_resize(new_len, x);
    kani::assert(r.is_ok() == (new_len <= cap), "C07.fixed_vec.resize_succeeds_exactly_when_it_fits");
    if r.is_err() {
        kani::assert(v.len() == len, "C07.fixed_vec.failed_resize_keeps_the_length");
    } else {
        kani::assert(v.len() == new_len, "C08.fixed_vec.resize_sets_the_length");
    }
    let j: usize = kani::any();
    kani::assume(j < v.len());
    if v.len() > 0 {
        kani::assert(v[j] == if j < len { s.vals[j] } else { x }, "C08.fixed_vec.resize_contents");
    }
    kani::cover!(r.is_err() && new_len > usize::MAX - 2, "huge-length-rejected");
    kani::cover!(r.is_ok() && new_len > len, "grown");
    core::mem::forget(v);
}

/// zero-sized elements: capacity `usize::MAX`; the sum `len + additional` must not be formed unchecked
#[kani::proof]
#[kani::unwind(4)]
pub(crate) fn fixed_zst_reserve_full_domain() {
    let mut v: FixedBumpVec<'static, ()> = FixedBumpVec::new();
    let len: usize = kani::any();
    unsafe { v.set_len(len) };
    let add: usize = kani::any();
    let r = v.try_reserve(add);
    kani::assert(r.is_ok() == (add <= usize::MAX - len), "C07.fixed_vec_zst.reserve_succeeds_exactly_when_it_fits");
    kani::assert(v.len() == len && v.capacity() == usize::MAX, "C07.fixed_vec_zst.reserve_changes_nothing");
    kani::cover!(r.is_err(), "rejected");
    kani::cover!(r.is_ok() && add > 0 && len > 0, "fits");
    core::mem::forget(v);
}

#[kani::proof]
#[kani::unwind(12)]
pub(crate) fn fixed_string_reserve_full_domain() {
    let text = "\u{e9}a";
    let mut buf = [MaybeUninit::<u8>::uninit(); 8];
    let b: BumpBox<'_, [MaybeUninit<u8>]> = unsafe { BumpBox::from_raw(NonNull::slice_from_raw_parts(NonNull::new_unchecked(buf.as_mut_ptr()), 8)) };
    let mut s = FixedBumpString::from_uninit(b);
    kani::assert(s.try_push_str(text).is_ok(), "C08.fixed_string.push_within_capacity");
    let (cap, len) = (s.capacity(), s.len());
    let add: usize = kani::any();
    let r = s.try_reserve(add);
    kani::assert(r.is_ok() == (add <= cap - len), "C07.fixed_string.reserve_succeeds_exactly_when_it_fits");
    kani::assert(s.len() == len && s.capacity() == cap && s.as_bytes().len() == 3 && s.as_bytes()[0] == 0xC3 && s.as_bytes()[1] == 0xA9 && s.as_bytes()[2] == b'a', "C07.fixed_string.reserve_changes_nothing");
    kani::cover!(r.is_err() && add > usize::MAX - 2, "overflowing-sum-rejected");
    kani::cover!(r.is_ok() && add > 0, "fits");
    core::mem::forget(s);
}
