//! Layer III: the growable collections (`BumpVec`, `BumpString`, `MutBumpVec`, `MutBumpVecRev`) checked against the
//! CONTRACT of the arena instead of its body.
//!
//! `StubBump<UP>` is an executable statement of what the allocator traits promise to a collection
//! (`Allocator` + `BumpAllocatorCore` + `BumpAllocatorTyped`): blocks are inside the memory the allocator owns, aligned,
//! large enough and disjoint from every live block; `grow` / `shrink` keep the common prefix and either stay in place
//! or move; a refused request changes nothing; `shrink_slice` returns `None` or the new place of the prefix; a prepared
//! slice allocation spans the free space and `allocate_prepared_slice(_rev)` commits `len` elements of it (moving them
//! to the far end of the region when the direction requires it).  That the REAL arena keeps this contract is what the
//! obligations of h_arena / h_realloc / h_typed decide (C01, C02, C13, C15, C17 clauses); here the real collection code
//! is the code under proof and the arena is replaced by its contract - the modular step of the technique.
//! The stub is deliberately small (one 64-byte buffer, bump direction as a const parameter, requests refused on demand)
//! so that CBMC sees literal object sizes.
use core::{
    alloc::Layout,
    cell::{Cell, UnsafeCell},
    ops::Range,
    ptr::NonNull,
};

use super::spec::*;
use crate::{
    BumpBox, BumpString, BumpVec, Checkpoint, FixedBumpVec, MutBumpVec, MutBumpVecRev, SizedTypeProperties,
    alloc::{AllocError, Allocator},
    stats::AnyStats,
    traits::{BumpAllocatorCore, BumpAllocatorCoreScope, BumpAllocatorTyped, MutBumpAllocatorCore, Sealed},
};

pub(crate) const N: usize = 64;
pub(crate) const N2: usize = 128;

/// Two regions stand for "the current chunk" and "a newer, larger chunk": when a request does not fit into the first
/// one (and is not refused) the stub moves on to the second and never comes back, exactly as the arena appends a chunk.
#[repr(C, align(16))]
pub(crate) struct StubBump<const UP: bool> {
    buf: UnsafeCell<[u8; N]>,
    buf2: UnsafeCell<[u8; N2]>,
    /// 0: `buf` is the current region, 1: `buf2`
    cur: Cell<usize>,
    /// current region, UP: bytes `[0, pos)` are handed out; DOWN: bytes `[pos, cap)` are handed out
    pos: Cell<usize>,
    /// position of the first region when it was left behind
    pos_left: Cell<usize>,
    /// while set, every request that needs new memory is refused (base allocator refuses, chunk full)
    pub(crate) refuse: Cell<bool>,
    /// while set, the stub may not move on to the second region (the base allocator refuses a new chunk)
    pub(crate) no_new_region: Cell<bool>,
}

impl<const UP: bool> StubBump<UP> {
    pub(crate) fn new() -> Self {
        Self {
            buf: UnsafeCell::new([0; N]),
            buf2: UnsafeCell::new([0; N2]),
            cur: Cell::new(0),
            pos: Cell::new(if UP { 0 } else { N }),
            pos_left: Cell::new(0),
            refuse: Cell::new(false),
            no_new_region: Cell::new(false),
        }
    }
    /// an arbitrary earlier history: `used` bytes of the first region are already handed out
    pub(crate) fn new_at(used: usize) -> Self {
        let s = Self::new();
        s.pos.set(if UP { used } else { N - used });
        s
    }
    #[inline(always)]
    fn cap(&self) -> usize {
        if self.cur.get() == 0 { N } else { N2 }
    }
    #[inline(always)]
    fn region(&self, which: usize) -> *mut u8 {
        if which == 0 { self.buf.get() as *mut u8 } else { self.buf2.get() as *mut u8 }
    }
    #[inline(always)]
    pub(crate) fn base(&self) -> usize {
        self.region(self.cur.get()) as usize
    }
    pub(crate) fn in_second_region(&self) -> bool {
        self.cur.get() == 1
    }
    /// bytes handed out (both regions)
    pub(crate) fn used(&self) -> usize {
        let here = if UP { self.pos.get() } else { self.cap() - self.pos.get() };
        if self.cur.get() == 0 {
            here
        } else {
            here + if UP { self.pos_left.get() } else { N - self.pos_left.get() }
        }
    }
    #[inline(always)]
    fn at(&self, off: usize) -> NonNull<u8> {
        unsafe { NonNull::new_unchecked(self.region(self.cur.get()).add(off)) }
    }
    /// offset inside the CURRENT region (anything else, e.g. a pointer into the region left behind, gives a value > cap)
    #[inline(always)]
    fn off(&self, p: NonNull<u8>) -> usize {
        let o = (p.as_ptr() as usize).wrapping_sub(self.base());
        if o <= self.cap() { o } else { usize::MAX / 2 }
    }
    fn owns_in(&self, which: usize, pos: usize, cap: usize, addr: usize, len: usize) -> bool {
        let b = self.region(which) as usize;
        if UP { addr >= b && addr + len <= b + pos } else { addr >= b + pos && addr + len <= b + cap }
    }
    /// is `[addr, addr+len)` inside the handed-out part of a region
    pub(crate) fn owns(&self, addr: usize, len: usize) -> bool {
        if self.cur.get() == 0 {
            self.owns_in(0, self.pos.get(), N, addr, len)
        } else {
            self.owns_in(1, self.pos.get(), N2, addr, len) || self.owns_in(0, self.pos_left.get(), N, addr, len)
        }
    }
    /// start offset of a block of `size`/`align` in the current region, if it fits
    fn fit(&self, size: usize, align: usize) -> Option<usize> {
        let pos = self.pos.get();
        if size > self.cap() {
            return None;
        }
        if UP {
            let start = (pos + align - 1) & !(align - 1);
            if start + size > self.cap() { None } else { Some(start) }
        } else {
            if size > pos { None } else { Some((pos - size) & !(align - 1)) }
        }
    }
    /// leave the first region behind (a new chunk is appended)
    fn next_region(&self) -> bool {
        if self.cur.get() == 1 || self.no_new_region.get() {
            return false;
        }
        self.pos_left.set(self.pos.get());
        self.cur.set(1);
        self.pos.set(if UP { 0 } else { N2 });
        true
    }
    /// the bump allocation step of the contract: offset of a fresh block in the (possibly new) current region or `None`
    fn take(&self, size: usize, align: usize) -> Option<usize> {
        if self.refuse.get() || align > 16 {
            return None;
        }
        let start = match self.fit(size, align) {
            Some(s) => s,
            None => {
                if size > N2 || !self.next_region() {
                    return None;
                }
                self.fit(size, align)?
            }
        };
        self.pos.set(if UP { start + size } else { start });
        Some(start)
    }
    fn is_last(&self, off: usize, size: usize) -> bool {
        if UP { off <= self.cap() && off + size == self.pos.get() } else { off == self.pos.get() }
    }
}

fn slice_of(p: NonNull<u8>, len: usize) -> NonNull<[u8]> {
    NonNull::slice_from_raw_parts(p, len)
}

unsafe impl<const UP: bool> Allocator for StubBump<UP> {
    fn allocate(&self, layout: Layout) -> Result<NonNull<[u8]>, AllocError> {
        match self.take(layout.size(), layout.align()) {
            Some(o) => Ok(slice_of(self.at(o), layout.size())),
            None => Err(AllocError),
        }
    }

    unsafe fn deallocate(&self, ptr: NonNull<u8>, layout: Layout) {
        // a dangling pointer with size 0 is allowed by the trait's contract
        if layout.size() == 0 && (ptr.as_ptr() as usize) < 16 {
            return;
        }
        kani::assert(self.owns(ptr.as_ptr() as usize, layout.size()), "C01.stub.deallocate_gets_a_live_block");
        let o = self.off(ptr);
        if self.is_last(o, layout.size()) {
            self.pos.set(if UP { o } else { o + layout.size() });
        }
    }

    unsafe fn grow(&self, ptr: NonNull<u8>, old: Layout, new: Layout) -> Result<NonNull<[u8]>, AllocError> {
        kani::assert(new.size() >= old.size(), "C07.stub.grow_is_called_with_a_larger_size");
        kani::assert(new.align() == old.align(), "C01.stub.grow_keeps_the_alignment");
        kani::assert(self.owns(ptr.as_ptr() as usize, old.size()), "C01.stub.grow_gets_a_live_block");
        let o = self.off(ptr);
        if self.is_last(o, old.size()) && !self.refuse.get() {
            if UP && new.size() <= self.cap() && o + new.size() <= self.cap() {
                self.pos.set(o + new.size());
                return Ok(slice_of(ptr, new.size()));
            }
            if !UP && o + old.size() >= new.size() {
                let dst = (o + old.size() - new.size()) & !(new.align() - 1);
                unsafe { core::ptr::copy(ptr.as_ptr(), self.at(dst).as_ptr(), old.size()) };
                self.pos.set(dst);
                return Ok(slice_of(self.at(dst), new.size()));
            }
        }
        match self.take(new.size(), new.align()) {
            Some(d) => {
                unsafe { core::ptr::copy_nonoverlapping(ptr.as_ptr(), self.at(d).as_ptr(), old.size()) };
                Ok(slice_of(self.at(d), new.size()))
            }
            None => Err(AllocError),
        }
    }

    unsafe fn shrink(&self, ptr: NonNull<u8>, old: Layout, new: Layout) -> Result<NonNull<[u8]>, AllocError> {
        kani::assert(new.size() <= old.size(), "C01.stub.shrink_is_called_with_a_smaller_size");
        kani::assert(new.align() == old.align(), "C01.stub.shrink_keeps_the_alignment");
        kani::assert(self.owns(ptr.as_ptr() as usize, old.size()), "C01.stub.shrink_gets_a_live_block");
        let o = self.off(ptr);
        if !self.is_last(o, old.size()) {
            return Ok(slice_of(ptr, new.size()));
        }
        if UP {
            self.pos.set(o + new.size());
            Ok(slice_of(ptr, new.size()))
        } else {
            let dst = (o + old.size() - new.size()) & !(new.align() - 1);
            unsafe { core::ptr::copy(ptr.as_ptr(), self.at(dst).as_ptr(), new.size()) };
            self.pos.set(dst);
            Ok(slice_of(self.at(dst), new.size()))
        }
    }
}

impl<const UP: bool> Sealed for StubBump<UP> {}

unsafe impl<const UP: bool> BumpAllocatorCore for StubBump<UP> {
    fn any_stats(&self) -> AnyStats<'_> {
        panic!("stub: any_stats is not part of the contract used by the collections")
    }
    fn checkpoint(&self) -> Checkpoint {
        panic!("stub: checkpoint is not part of the contract used by the collections")
    }
    unsafe fn reset_to(&self, _checkpoint: Checkpoint) {
        panic!("stub: reset_to is not part of the contract used by the collections")
    }
    fn is_claimed(&self) -> bool {
        false
    }
    fn prepare_allocation(&self, layout: Layout) -> Result<Range<NonNull<u8>>, AllocError> {
        if self.refuse.get() || layout.align() > 16 {
            return Err(AllocError);
        }
        if self.fit(layout.size(), layout.align()).is_none() && (layout.size() > N2 || !self.next_region()) {
            return Err(AllocError);
        }
        let pos = self.pos.get();
        let (s, e) = if UP { ((pos + layout.align() - 1) & !(layout.align() - 1), self.cap()) } else { (0, pos & !(layout.align() - 1)) };
        if s > e || e - s < layout.size() {
            return Err(AllocError);
        }
        Ok(self.at(s)..self.at(e))
    }
    unsafe fn allocate_prepared(&self, layout: Layout, range: Range<NonNull<u8>>) -> NonNull<u8> {
        let (s, e) = (self.off(range.start), self.off(range.end));
        if UP {
            self.pos.set(s + layout.size());
            range.start
        } else {
            let dst = (e - layout.size()) & !(layout.align() - 1);
            unsafe { core::ptr::copy(range.start.as_ptr(), self.at(dst).as_ptr(), layout.size()) };
            self.pos.set(dst);
            self.at(dst)
        }
    }
    fn prepare_allocation_rev(&self, layout: Layout) -> Result<Range<NonNull<u8>>, AllocError> {
        let r = self.prepare_allocation(layout)?;
        // the END of the range is aligned
        let (s, e) = (self.off(r.start), self.off(r.end));
        let e = e & !(layout.align() - 1);
        if s > e || e - s < layout.size() {
            return Err(AllocError);
        }
        Ok(self.at(s)..self.at(e))
    }
    unsafe fn allocate_prepared_rev(&self, layout: Layout, range: Range<NonNull<u8>>) -> NonNull<u8> {
        let (s, e) = (self.off(range.start), self.off(range.end));
        if UP {
            let dst = (s + layout.align() - 1) & !(layout.align() - 1);
            unsafe { core::ptr::copy(self.at(e - layout.size()).as_ptr(), self.at(dst).as_ptr(), layout.size()) };
            self.pos.set(dst + layout.size());
            self.at(dst)
        } else {
            let dst = e - layout.size();
            self.pos.set(dst);
            self.at(dst)
        }
    }
}

unsafe impl<const UP: bool> MutBumpAllocatorCore for StubBump<UP> {}
unsafe impl<'a, const UP: bool> BumpAllocatorCoreScope<'a> for &'a StubBump<UP> {}
unsafe impl<'a, const UP: bool> BumpAllocatorCoreScope<'a> for &'a mut StubBump<UP> {}

fn or_panic<T>(r: Result<T, AllocError>) -> T {
    match r {
        Ok(v) => v,
        Err(_) => panic!("allocation failed"),
    }
}

unsafe impl<const UP: bool> BumpAllocatorTyped for StubBump<UP> {
    type TypedStats<'b>
        = AnyStats<'b>
    where
        Self: 'b;

    fn typed_stats(&self) -> AnyStats<'_> {
        self.any_stats()
    }
    fn allocate_layout(&self, layout: Layout) -> NonNull<u8> {
        or_panic(self.try_allocate_layout(layout))
    }
    fn try_allocate_layout(&self, layout: Layout) -> Result<NonNull<u8>, AllocError> {
        self.allocate(layout).map(|p| p.cast())
    }
    fn allocate_sized<T>(&self) -> NonNull<T> {
        or_panic(self.try_allocate_sized())
    }
    fn try_allocate_sized<T>(&self) -> Result<NonNull<T>, AllocError> {
        self.allocate(Layout::new::<T>()).map(|p| p.cast())
    }
    fn allocate_slice<T>(&self, len: usize) -> NonNull<T> {
        or_panic(self.try_allocate_slice(len))
    }
    fn try_allocate_slice<T>(&self, len: usize) -> Result<NonNull<T>, AllocError> {
        let Ok(layout) = Layout::array::<T>(len) else {
            return Err(AllocError);
        };
        self.allocate(layout).map(|p| p.cast())
    }
    fn allocate_slice_for<T>(&self, slice: &[T]) -> NonNull<T> {
        or_panic(self.try_allocate_slice_for(slice))
    }
    fn try_allocate_slice_for<T>(&self, slice: &[T]) -> Result<NonNull<T>, AllocError> {
        self.allocate(Layout::for_value(slice)).map(|p| p.cast())
    }
    unsafe fn shrink_slice<T>(&self, ptr: NonNull<T>, old_len: usize, new_len: usize) -> Option<NonNull<T>> {
        kani::assert(new_len <= old_len, "C01.stub.shrink_slice_is_called_with_a_smaller_length");
        let o = self.off(ptr.cast());
        if !self.is_last(o, old_len * T::SIZE) {
            return None;
        }
        let r = unsafe { self.shrink(ptr.cast(), Layout::array::<T>(old_len).unwrap(), Layout::array::<T>(new_len).unwrap()) };
        Some(r.unwrap().cast())
    }
    fn prepare_slice_allocation<T>(&self, cap: usize) -> NonNull<[T]> {
        or_panic(self.try_prepare_slice_allocation(cap))
    }
    fn try_prepare_slice_allocation<T>(&self, cap: usize) -> Result<NonNull<[T]>, AllocError> {
        let Ok(layout) = Layout::array::<T>(cap) else {
            return Err(AllocError);
        };
        let r = self.prepare_allocation(layout)?;
        let (s, e) = (self.off(r.start), self.off(r.end));
        let avail = (e - s) / T::SIZE;
        let start = if UP { s } else { e - avail * T::SIZE };
        Ok(NonNull::slice_from_raw_parts(self.at(start).cast(), avail))
    }
    unsafe fn allocate_prepared_slice<T>(&self, ptr: NonNull<T>, len: usize, cap: usize) -> NonNull<[T]> {
        kani::assert(len <= cap, "C17.stub.commit_at_most_the_prepared_capacity");
        let s = self.off(ptr.cast());
        kani::assert(s <= self.cap() && cap * T::SIZE <= self.cap() - s, "C17.stub.commit_inside_the_prepared_region");
        if UP {
            self.pos.set(s + len * T::SIZE);
            NonNull::slice_from_raw_parts(ptr, len)
        } else {
            let dst = s + (cap - len) * T::SIZE;
            unsafe { core::ptr::copy(ptr.as_ptr().cast::<u8>(), self.at(dst).as_ptr(), len * T::SIZE) };
            self.pos.set(dst);
            NonNull::slice_from_raw_parts(self.at(dst).cast(), len)
        }
    }
    fn prepare_slice_allocation_rev<T>(&self, cap: usize) -> (NonNull<T>, usize) {
        or_panic(self.try_prepare_slice_allocation_rev(cap))
    }
    fn try_prepare_slice_allocation_rev<T>(&self, cap: usize) -> Result<(NonNull<T>, usize), AllocError> {
        let Ok(layout) = Layout::array::<T>(cap) else {
            return Err(AllocError);
        };
        let r = self.prepare_allocation_rev(layout)?;
        let (s, e) = (self.off(r.start), self.off(r.end));
        let avail = (e - s) / T::SIZE;
        let end = if UP { s + avail * T::SIZE } else { e };
        Ok((self.at(end).cast(), avail))
    }
    unsafe fn allocate_prepared_slice_rev<T>(&self, ptr: NonNull<T>, len: usize, cap: usize) -> NonNull<[T]> {
        kani::assert(len <= cap, "C17.stub.commit_at_most_the_prepared_capacity");
        let e = self.off(ptr.cast());
        kani::assert(e <= self.cap() && cap * T::SIZE <= e, "C17.stub.commit_inside_the_prepared_region");
        if UP {
            let dst = e - cap * T::SIZE;
            unsafe { core::ptr::copy(self.at(e - len * T::SIZE).as_ptr(), self.at(dst).as_ptr(), len * T::SIZE) };
            self.pos.set(dst + len * T::SIZE);
            NonNull::slice_from_raw_parts(self.at(dst).cast(), len)
        } else {
            let dst = e - len * T::SIZE;
            self.pos.set(dst);
            NonNull::slice_from_raw_parts(self.at(dst).cast(), len)
        }
    }
    fn reserve(&self, additional: usize) {
        or_panic(self.try_reserve(additional))
    }
    fn try_reserve(&self, additional: usize) -> Result<(), AllocError> {
        let Ok(layout) = Layout::array::<u8>(additional) else {
            return Err(AllocError);
        };
        self.prepare_allocation(layout).map(|_| ())
    }
}

// ------------------------------------------------------------------------------------------------ BumpVec
pub(crate) type SV<'a, const UP: bool> = BumpVec<u16, &'a StubBump<UP>>;

/// what an operation under test sees: the vector, the model (`m[..*mlen]`), a symbolic value and the state before
pub(crate) struct Ctx {
    pub(crate) m: [u16; 12],
    pub(crate) mlen: usize,
    pub(crate) x: u16,
    pub(crate) cap1: usize,
    pub(crate) len1: usize,
    pub(crate) addr1: usize,
    /// concrete position for insertions
    pub(crate) idx: usize,
}

/// `BumpVec<u16>` over the contract: `n` pushes (symbolic values) on a stub with `used` bytes already handed out, then
/// ONE growing operation `f` (returns whether it reported success) with the request refused or not; afterwards the
/// vector is compared with the model and a failure must have changed nothing (C07), the buffer is a live aligned block
/// (C01), dropping the vector reclaims at most its own buffer (C13).
pub(crate) fn ob_stub_vec<const UP: bool>(used: usize, n: usize, foreign: bool, f: impl FnOnce(&mut SV<'_, UP>, &mut Ctx) -> bool) {
    let stub = StubBump::<UP>::new_at(used);
    let vals: [u16; 6] = kani::any();
    let mut v = BumpVec::<u16, _>::new_in(&stub);
    let mut c = Ctx { m: [0u16; 12], mlen: 0, x: kani::any(), cap1: 0, len1: 0, addr1: 0, idx: 1 };
    let mut i = 0;
    while i < n {
        let (cap_b, addr_b, len_b) = (v.capacity(), v.as_ptr() as usize, v.len());
        if v.try_push(vals[i]).is_ok() {
            c.m[c.mlen] = vals[i];
            c.mlen += 1;
        }
        if len_b < cap_b {
            kani::assert(v.capacity() == cap_b && v.as_ptr() as usize == addr_b && v.len() == len_b + 1, "C08.bump_vec.push_within_capacity_does_not_reallocate");
        }
        i += 1;
    }
    kani::assert(v.len() == c.mlen && v.capacity() >= c.mlen, "C08.bump_vec.len_and_capacity_after_pushes");
    kani::assert(c.mlen == 0 || (al(v.as_ptr() as usize, 2) && stub.owns(v.as_ptr() as usize, v.capacity() * 2)), "C01.bump_vec.buffer_is_a_live_aligned_block");
    if foreign {
        // another block is handed out after the vector's buffer: the buffer is no longer the newest allocation,
        // growth has to move it and neither growth nor drop may reclaim anything
        let _ = stub.allocate(Layout::new::<u16>());
    }
    let used1 = stub.used();
    (c.cap1, c.addr1, c.len1) = (v.capacity(), v.as_ptr() as usize, v.len());
    stub.refuse.set(kani::any());
    let ok = f(&mut v, &mut c);
    if !ok {
        kani::assert(v.len() == c.len1 && v.capacity() == c.cap1 && (c.cap1 == 0 || v.as_ptr() as usize == c.addr1), "C07.bump_vec.failed_growth_changes_neither_length_capacity_nor_buffer");
        kani::assert(c.mlen == c.len1, "harness: model untouched on failure");
    }
    kani::assert(v.len() == c.mlen && v.capacity() >= c.mlen, "C08.bump_vec.len_and_capacity");
    let j: usize = kani::any();
    kani::assume(j < c.mlen);
    if c.mlen > 0 {
        kani::assert(v[j] == c.m[j], "C08.bump_vec.same_contents_as_the_model");
        kani::assert(al(v.as_ptr() as usize, 2) && stub.owns(v.as_ptr() as usize, v.capacity() * 2), "C01.bump_vec.buffer_is_a_live_aligned_block_after_growth");
    }
    stub.refuse.set(false);
    drop(v);
    kani::assert(stub.used() >= used, "C13.bump_vec.drop_reclaims_only_its_own_buffer");
    if foreign && c.len1 > 0 {
        kani::assert(stub.used() >= used1, "C13.bump_vec.buffer_behind_another_block_reclaims_nothing");
    }
}

fn op_reserve<const UP: bool>(v: &mut SV<'_, UP>, c: &mut Ctx) -> bool {
    // over the FULL usize range
    let add: usize = kani::any();
    let ok = v.try_reserve(add).is_ok();
    if add > (isize::MAX as usize) / 2 {
        kani::assert(!ok, "C07.bump_vec.overflowing_reserve_is_an_error");
    }
    if ok {
        kani::assert(v.capacity() >= c.len1 + add, "C08.bump_vec.reserve_promise");
    }
    if add <= c.cap1 - c.len1 {
        kani::assert(ok && v.capacity() == c.cap1 && (c.cap1 == 0 || v.as_ptr() as usize == c.addr1), "C08.bump_vec.no_reallocation_while_the_capacity_suffices");
    }
    kani::cover!(add == c.cap1 - c.len1 && c.cap1 > 0, "reserve-exactly-the-spare-capacity");
    kani::cover!(ok && add > c.cap1 - c.len1, "reserve-grows");
    kani::cover!(!ok && add > (isize::MAX as usize) / 2 && c.cap1 > 0, "reserve-overflow-on-a-vector-with-a-buffer");
    kani::cover!(!ok && add < 8, "reserve-refused");
    ok
}
fn op_reserve_exact<const UP: bool>(v: &mut SV<'_, UP>, c: &mut Ctx) -> bool {
    let add: usize = kani::any();
    let ok = v.try_reserve_exact(add).is_ok();
    if add > (isize::MAX as usize) / 2 {
        kani::assert(!ok, "C07.bump_vec.overflowing_reserve_exact_is_an_error");
    }
    if ok {
        kani::assert(v.capacity() >= c.len1 + add, "C08.bump_vec.reserve_exact_promise");
    }
    if add <= c.cap1 - c.len1 {
        kani::assert(ok && v.capacity() == c.cap1 && (c.cap1 == 0 || v.as_ptr() as usize == c.addr1), "C08.bump_vec.no_reallocation_while_the_capacity_suffices");
    }
    kani::cover!(add == c.cap1 - c.len1 && c.cap1 > 0, "reserve-exact-exactly-the-spare-capacity");
    kani::cover!(ok && add > c.cap1 - c.len1, "reserve-exact-grows");
    kani::cover!(!ok && c.cap1 > 0, "reserve-exact-fails");
    ok
}
fn op_push<const UP: bool>(v: &mut SV<'_, UP>, c: &mut Ctx) -> bool {
    let ok = v.try_push(c.x).is_ok();
    if ok {
        c.m[c.mlen] = c.x;
        c.mlen += 1;
    }
    kani::cover!(ok && v.capacity() > c.cap1 && c.len1 > 0, "push-grows");
    kani::cover!(!ok && c.len1 > 0, "push-fails");
    ok
}
fn op_insert<const UP: bool>(v: &mut SV<'_, UP>, c: &mut Ctx) -> bool {
    let idx: usize = kani::any();
    kani::assume(idx <= c.len1);
    let ok = v.try_insert(idx, c.x).is_ok();
    if ok {
        let mut j = c.mlen;
        while j > idx {
            c.m[j] = c.m[j - 1];
            j -= 1;
        }
        c.m[idx] = c.x;
        c.mlen += 1;
    }
    kani::cover!(ok && idx < c.len1 && v.capacity() > c.cap1, "insert-in-the-middle-grows");
    kani::cover!(!ok && c.len1 > 0, "insert-fails");
    ok
}
fn op_extend<const UP: bool>(v: &mut SV<'_, UP>, c: &mut Ctx) -> bool {
    let ext = [c.x, c.x.wrapping_add(1), c.x.wrapping_add(2)];
    let ok = v.try_extend_from_slice_copy(&ext).is_ok();
    if ok {
        c.m[c.mlen] = ext[0];
        c.m[c.mlen + 1] = ext[1];
        c.m[c.mlen + 2] = ext[2];
        c.mlen += 3;
    }
    kani::cover!(ok && v.capacity() > c.cap1 && c.len1 > 0, "extend-grows");
    kani::cover!(!ok && c.len1 > 0, "extend-fails");
    ok
}
fn op_extend_clone<const UP: bool>(v: &mut SV<'_, UP>, c: &mut Ctx) -> bool {
    let ext = [c.x, c.x.wrapping_add(1), c.x.wrapping_add(2)];
    let ok = v.try_extend_from_slice_clone(&ext).is_ok();
    if ok {
        c.m[c.mlen] = ext[0];
        c.m[c.mlen + 1] = ext[1];
        c.m[c.mlen + 2] = ext[2];
        c.mlen += 3;
    }
    kani::cover!(ok && v.capacity() > c.cap1 && c.len1 > 0, "extend-clone-grows");
    kani::cover!(!ok && c.len1 > 0, "extend-clone-fails");
    ok
}
fn op_resize<const UP: bool>(v: &mut SV<'_, UP>, c: &mut Ctx) -> bool {
    let new_len: usize = kani::any();
    kani::assume(new_len <= 8);
    let ok = v.try_resize(new_len, c.x).is_ok();
    if ok {
        let mut j = c.mlen;
        while j < new_len {
            c.m[j] = c.x;
            j += 1;
        }
        c.mlen = new_len;
    }
    kani::cover!(ok && new_len > c.cap1 && c.len1 > 0, "resize-grows");
    kani::cover!(ok && new_len < c.len1, "resize-truncates");
    kani::cover!(!ok && c.len1 > 0, "resize-fails");
    ok
}
fn op_append<const UP: bool>(v: &mut SV<'_, UP>, c: &mut Ctx) -> bool {
    let ext = [c.x, c.x.wrapping_add(1)];
    let ok = v.try_append(ext).is_ok();
    if ok {
        c.m[c.mlen] = ext[0];
        c.m[c.mlen + 1] = ext[1];
        c.mlen += 2;
    }
    kani::cover!(ok && v.capacity() > c.cap1 && c.len1 > 0, "append-grows");
    kani::cover!(!ok && c.len1 > 0, "append-fails");
    ok
}
fn op_extend_within<const UP: bool>(v: &mut SV<'_, UP>, c: &mut Ctx) -> bool {
    // concrete range 1..3 of a vector of length >= 3
    if c.len1 < 3 {
        return true;
    }
    let ok = v.try_extend_from_within_copy(1..3).is_ok();
    if ok {
        c.m[c.mlen] = c.m[1];
        c.m[c.mlen + 1] = c.m[2];
        c.mlen += 2;
    }
    kani::cover!(ok && v.capacity() > c.cap1, "extend-within-grows");
    kani::cover!(!ok, "extend-within-fails");
    ok
}

macro_rules! stubvec {
    ($($name:ident: $up:expr, $used:expr, $n:expr, $foreign:expr, $op:ident;)*) => {$(
        #[kani::proof]
        #[kani::unwind(10)]
        pub(crate) fn $name() {
            ob_stub_vec::<$up>($used, $n, $foreign, $op::<$up>);
        }
    )*};
}
stubvec! {
    stub_vec_reserve_up: true, 0, 2, false, op_reserve;
    stub_vec_reserve_dn: false, 4, 2, false, op_reserve;
    stub_vec_reserve_exact_up: true, 6, 2, false, op_reserve_exact;
    stub_vec_reserve_exact_dn: false, 0, 2, false, op_reserve_exact;
    stub_vec_push_up: true, 2, 4, false, op_push;
    stub_vec_push_dn: false, 0, 4, false, op_push;
    stub_vec_insert_up: true, 0, 4, false, op_insert;
    stub_vec_insert_dn: false, 6, 4, false, op_insert;
    stub_vec_extend_up: true, 0, 3, false, op_extend;
    stub_vec_extend_dn: false, 2, 3, false, op_extend;
    stub_vec_extend_clone_up: true, 2, 3, false, op_extend_clone;
    stub_vec_extend_clone_dn: false, 0, 3, false, op_extend_clone;
    stub_vec_resize_up: true, 0, 3, false, op_resize;
    stub_vec_resize_dn: false, 0, 3, false, op_resize;
    stub_vec_append_up: true, 0, 4, false, op_append;
    stub_vec_append_dn: false, 0, 4, false, op_append;
    stub_vec_extend_within_up: true, 0, 4, false, op_extend_within;
    stub_vec_extend_within_dn: false, 4, 4, false, op_extend_within;
    stub_vec_push_foreign_up: true, 0, 4, true, op_push;
    stub_vec_push_foreign_dn: false, 2, 4, true, op_push;
    stub_vec_reserve_foreign_up: true, 2, 2, true, op_reserve;
    stub_vec_insert_foreign_dn: false, 0, 4, true, op_insert;
    stub_vec_extend_foreign_up: true, 0, 3, true, op_extend;
    stub_vec_reserve_exact_foreign_up: true, 0, 3, true, op_reserve_exact;
    stub_vec_reserve_exact_foreign_dn: false, 2, 3, true, op_reserve_exact;
}

// ------------------------------------------------------------------------------------------------ BumpVec: shrinking and conversions
/// `BumpVec<u16>` with `n` elements and spare capacity over the contract, optionally behind another block; then one
/// shrinking / converting operation.  Contents, length, capacity bounds and block ownership are checked; every pointer
/// the collection hands back to the allocator is checked by the stub itself (`C01.stub.*` clauses).
pub(crate) fn ob_stub_vec_convert<const UP: bool>(used: usize, n: usize, spare: usize, foreign: bool, op: u8) {
    let stub = StubBump::<UP>::new_at(used);
    let vals: [u16; 6] = kani::any();
    let Ok(mut v) = BumpVec::<u16, _>::try_with_capacity_in(n + spare, &stub) else {
        return;
    };
    kani::assert(v.capacity() >= n + spare && v.len() == 0, "C08.bump_vec.with_capacity_promise");
    let addr0 = v.as_ptr() as usize;
    let mut i = 0;
    while i < n {
        kani::assert(v.try_push(vals[i]).is_ok(), "C08.bump_vec.push_within_capacity_succeeds");
        i += 1;
    }
    kani::assert(v.as_ptr() as usize == addr0, "C08.bump_vec.no_reallocation_within_capacity");
    if foreign {
        let _ = stub.allocate(Layout::new::<u16>());
    }
    let cap1 = v.capacity();
    let used1 = stub.used();
    let j: usize = kani::any();
    kani::assume(j < n);
    match op {
        0 => {
            v.shrink_to_fit();
            kani::assert(v.len() == n && v.capacity() >= n && v.capacity() <= cap1, "C08.bump_vec.shrink_to_fit.len_and_capacity");
            // (how much a shrink_to_fit of the newest block gives back is not prescribed by the property; that the
            // bytes handed out never grow, and that any other block reclaims nothing, is)
            kani::assert(stub.used() <= used1, "C13.bump_vec.shrink_to_fit_never_takes_more_memory");
            if foreign {
                kani::assert(stub.used() == used1, "C13.bump_vec.shrink_of_another_block_reclaims_nothing");
            }
            kani::assert(v[j] == vals[j], "C02.bump_vec.shrink_to_fit.keeps_contents");
            kani::assert(stub.owns(v.as_ptr() as usize, v.capacity() * 2) && al(v.as_ptr() as usize, 2), "C01.bump_vec.shrink_to_fit.buffer_is_live");
            drop(v);
        }
        1 => {
            let min: usize = kani::any();
            v.shrink_to(min);
            kani::assert(v.len() == n && v.capacity() >= n && v.capacity() <= cap1, "C08.bump_vec.shrink_to.len_and_capacity");
            kani::assert(min > cap1 || v.capacity() >= min, "C08.bump_vec.shrink_to.keeps_the_lower_bound");
            kani::assert(v[j] == vals[j], "C02.bump_vec.shrink_to.keeps_contents");
            kani::assert(stub.owns(v.as_ptr() as usize, v.capacity() * 2), "C01.bump_vec.shrink_to.buffer_is_live");
            drop(v);
        }
        2 => {
            let b = v.into_boxed_slice();
            kani::assert(b.len() == n && b[j] == vals[j], "C08.bump_vec.into_boxed_slice.same_contents");
            kani::assert(stub.owns(b.as_ptr() as usize, n * 2) && al(b.as_ptr() as usize, 2), "C01.bump_vec.into_boxed_slice.block_is_live");
            let used2 = stub.used();
            drop(b);
            kani::assert(stub.used() == used2, "C13.bump_box.drop_reclaims_nothing");
        }
        3 => {
            let f = v.into_fixed_vec();
            kani::assert(f.len() == n && f.capacity() >= n && f.capacity() <= cap1 && f[j] == vals[j], "C08.bump_vec.into_fixed_vec.same_contents");
            kani::assert(stub.owns(f.as_ptr() as usize, f.capacity() * 2), "C01.bump_vec.into_fixed_vec.block_is_live");
            drop(f);
        }
        4 => {
            // split_off of a concrete range of a vector with spare capacity: both halves are vectors of their own
            // (separate live blocks, C01/C16), can be dropped in either order, and each keeps its elements
            let lo = 1;
            let hi = n - 1;
            let part = v.split_off(lo..hi);
            kani::assert(part.len() == hi - lo && v.len() == n - (hi - lo), "C16.bump_vec.split_off.lengths_add_up");
            kani::assert(part.capacity() >= part.len() && v.capacity() >= v.len() && part.capacity() + v.capacity() <= cap1, "C16.bump_vec.split_off.capacities_inside_the_original");
            let (pa, pl) = (part.as_ptr() as usize, part.capacity() * 2);
            let (va, vl) = (v.as_ptr() as usize, v.capacity() * 2);
            kani::assert(pa + pl <= va || va + vl <= pa || pl == 0 || vl == 0, "C16.bump_vec.split_off.buffers_disjoint");
            kani::assert(stub.owns(pa, pl) && stub.owns(va, vl), "C01.bump_vec.split_off.both_buffers_live");
            let k: usize = kani::any();
            kani::assume(k < part.len());
            kani::assert(part[k] == vals[lo + k], "C16.bump_vec.split_off.part_is_the_range_in_order");
            let r: usize = kani::any();
            kani::assume(r < v.len());
            kani::assert(v[r] == vals[if r < lo { r } else { r + (hi - lo) }], "C16.bump_vec.split_off.rest_keeps_its_order");
            if kani::any() {
                drop(part);
                drop(v);
            } else {
                drop(v);
                drop(part);
            }
        }
        5 => {
            let mut it = v.into_iter();
            let mut k = 0;
            while k < n {
                kani::assert(it.next() == Some(vals[k]), "C08.bump_vec.into_iter.yields_in_order");
                k += 1;
            }
            kani::assert(it.next().is_none(), "C08.bump_vec.into_iter.ends");
            drop(it);
        }
        _ => {}
    }
    kani::assert(stub.used() >= used, "C13.bump_vec.conversions_reclaim_only_their_own_buffer");
    if foreign {
        kani::assert(stub.used() >= used1, "C13.bump_vec.block_behind_another_reclaims_nothing");
    }
    kani::cover!(n >= 1, "converted-a-non-empty-vector");
}

macro_rules! stubconv {
    ($($name:ident: $up:expr, $used:expr, $n:expr, $spare:expr, $foreign:expr, $op:expr;)*) => {$(
        #[kani::proof]
        #[kani::unwind(10)]
        pub(crate) fn $name() {
            ob_stub_vec_convert::<$up>($used, $n, $spare, $foreign, $op);
        }
    )*};
}
stubconv! {
    stub_conv_shrink_to_fit_up: true, 0, 3, 2, false, 0;
    stub_conv_shrink_to_fit_dn: false, 2, 3, 2, false, 0;
    stub_conv_shrink_to_fit_foreign_up: true, 0, 2, 2, true, 0;
    stub_conv_shrink_to_fit_foreign_dn: false, 0, 2, 2, true, 0;
    stub_conv_shrink_to_up: true, 2, 3, 3, false, 1;
    stub_conv_shrink_to_dn: false, 0, 3, 3, false, 1;
    stub_conv_into_boxed_up: true, 0, 3, 2, false, 2;
    stub_conv_into_boxed_dn: false, 0, 3, 2, false, 2;
    stub_conv_into_fixed_up: true, 0, 3, 2, false, 3;
    stub_conv_into_fixed_dn: false, 4, 3, 2, true, 3;
    stub_conv_split_off_up: true, 0, 4, 2, false, 4;
    stub_conv_split_off_dn: false, 0, 4, 2, false, 4;
    stub_conv_split_off_foreign_up: true, 0, 4, 1, true, 4;
    stub_conv_into_iter_up: true, 0, 3, 1, false, 5;
    stub_conv_into_iter_dn: false, 0, 3, 1, true, 5;
}

// ------------------------------------------------------------------------------------------------ BumpVec: drops across growth (C06 / C07)
use super::h_coll::{DROPS, Tok};

/// `BumpVec<Tok>`: pushes that grow (and move) the buffer, a push that may be refused, a removal, then drop: every
/// token is dropped exactly once - a moved buffer drops nothing, a refused push drops the rejected value and nothing else.
pub(crate) fn ob_stub_vec_drops<const UP: bool>(used: usize, foreign: bool, refuse: bool) {
    unsafe { DROPS = [0; super::h_coll::CAP] };
    let stub = StubBump::<UP>::new_at(used);
    let Ok(mut v) = BumpVec::<Tok, _>::try_with_capacity_in(2, &stub) else {
        return;
    };
    let cap0 = v.capacity();
    let mut pushed = [false; 5];
    pushed[0] = v.try_push(Tok(0)).is_ok();
    pushed[1] = v.try_push(Tok(1)).is_ok();
    if foreign {
        let _ = stub.allocate(Layout::new::<u16>());
    }
    // the vector is full: the next push has to grow - refused, grown in place or moved
    stub.refuse.set(refuse);
    pushed[2] = v.try_push(Tok(2)).is_ok();
    stub.refuse.set(false);
    pushed[3] = v.try_push(Tok(3)).is_ok();
    pushed[4] = v.try_push(Tok(4)).is_ok();
    let mut k = 0;
    while k < 5 {
        // a value that was not taken is dropped by the failed call, a value that was taken is still alive
        kani::assert(unsafe { DROPS[k] } == if pushed[k] { 0 } else { 1 }, "C06.bump_vec.growth_drops_nothing_and_a_refused_push_drops_only_the_rejected_value");
        k += 1;
    }
    let removed = if v.len() >= 2 { Some(v.remove(1)) } else { None };
    kani::assert(removed.is_none() || unsafe { DROPS[1] } == 0, "C06.bump_vec.removed_value_is_alive");
    drop(removed);
    drop(v);
    let mut k = 0;
    while k < 5 {
        kani::assert(unsafe { DROPS[k] } == 1, "C06.bump_vec.every_value_dropped_exactly_once");
        k += 1;
    }
    kani::assert(pushed[0] && pushed[1] && pushed[3] && pushed[4], "C08.bump_vec.pushes_that_are_not_refused_succeed");
    kani::cover!(cap0 == 2 && pushed[2] != refuse, "growing-push-refused-or-served");
}

#[kani::proof]
#[kani::unwind(8)]
pub(crate) fn stub_vec_drops_up() {
    ob_stub_vec_drops::<true>(0, true, false);
}
#[kani::proof]
#[kani::unwind(8)]
pub(crate) fn stub_vec_drops_up_refused() {
    ob_stub_vec_drops::<true>(2, false, true);
}
#[kani::proof]
#[kani::unwind(8)]
pub(crate) fn stub_vec_drops_dn_refused() {
    ob_stub_vec_drops::<false>(0, true, true);
}
#[kani::proof]
#[kani::unwind(8)]
pub(crate) fn stub_vec_drops_dn() {
    ob_stub_vec_drops::<false>(3, false, false);
}

// ------------------------------------------------------------------------------------------------ MutBumpVec / MutBumpVecRev
/// the operations of the two exclusive vectors an obligation uses (plain forwarding to the real methods)
pub(crate) trait MutVecLike<'a, const UP: bool>: Sized {
    const REV: bool;
    fn new(stub: &'a mut StubBump<UP>) -> Self;
    fn push(&mut self, x: u16) -> bool;
    fn reserve(&mut self, add: usize) -> bool;
    fn reserve_exact(&mut self, add: usize) -> bool;
    fn extend(&mut self, s: &[u16]) -> bool;
    fn insert(&mut self, i: usize, x: u16) -> bool;
    fn resize(&mut self, n: usize, x: u16) -> bool;
    fn len_(&self) -> usize;
    fn cap_(&self) -> usize;
    fn at_(&self, i: usize) -> u16;
    fn boxed(self) -> BumpBox<'a, [u16]>;
}
macro_rules! mut_vec_like {
    ($ty:ident, $rev:expr) => {
        impl<'a, const UP: bool> MutVecLike<'a, UP> for $ty<u16, &'a mut StubBump<UP>> {
            const REV: bool = $rev;
            fn new(stub: &'a mut StubBump<UP>) -> Self {
                $ty::new_in(stub)
            }
            fn push(&mut self, x: u16) -> bool {
                self.try_push(x).is_ok()
            }
            fn reserve(&mut self, add: usize) -> bool {
                self.try_reserve(add).is_ok()
            }
            fn reserve_exact(&mut self, add: usize) -> bool {
                self.try_reserve_exact(add).is_ok()
            }
            fn extend(&mut self, s: &[u16]) -> bool {
                self.try_extend_from_slice_copy(s).is_ok()
            }
            fn insert(&mut self, i: usize, x: u16) -> bool {
                self.try_insert(i, x).is_ok()
            }
            fn resize(&mut self, n: usize, x: u16) -> bool {
                self.try_resize(n, x).is_ok()
            }
            fn len_(&self) -> usize {
                self.len()
            }
            fn cap_(&self) -> usize {
                self.capacity()
            }
            fn at_(&self, i: usize) -> u16 {
                self[i]
            }
            fn boxed(self) -> BumpBox<'a, [u16]> {
                self.into_boxed_slice()
            }
        }
    };
}
mut_vec_like!(MutBumpVec, false);
mut_vec_like!(MutBumpVecRev, true);

/// `MutBumpVec<u16>` / `MutBumpVecRev<u16>` over the contract (`&mut` stub): pushes, one growing operation `f` that may
/// be refused, then `into_boxed_slice`: the committed slice has the model's contents (the model `c.m` is kept in
/// SLICE order), is a live aligned block, and a refused growth left length, capacity and contents alone.
pub(crate) fn ob_stub_mut_vec<'a, const UP: bool, V: MutVecLike<'a, UP>>(stub: &'a mut StubBump<UP>, used: usize, n: usize, mode: u8, f: impl FnOnce(&mut V, &mut Ctx) -> bool) {
    let probe: *const StubBump<UP> = stub;
    let vals: [u16; 6] = kani::any();
    let mut c = Ctx { m: [0u16; 12], mlen: 0, x: kani::any(), cap1: 0, len1: 0, addr1: 0, idx: 1 };
    let mut v = V::new(stub);
    let mut i = 0;
    while i < n {
        kani::assert(v.push(vals[i]), "C08.mut_vec.push_that_is_not_refused_succeeds");
        model_push::<V, UP>(&mut c, vals[i]);
        i += 1;
    }
    (c.len1, c.cap1) = (v.len_(), v.cap_());
    // mode (concrete, keeps every copy length concrete for CBMC): 0 = requests are served, 1 = every request for
    // new memory is refused, 2 = only a new region (chunk) is refused
    unsafe { (*probe).refuse.set(mode == 1) };
    unsafe { (*probe).no_new_region.set(mode == 2) };
    c.addr1 = mode as usize;
    let ok = f(&mut v, &mut c);
    if !ok {
        kani::assert(v.len_() == c.len1 && v.cap_() == c.cap1 && c.mlen == c.len1, "C07.mut_vec.failed_growth_changes_neither_length_nor_capacity");
    }
    kani::assert(v.len_() == c.mlen && v.cap_() >= c.mlen, "C08.mut_vec.len_and_capacity");
    unsafe { (*probe).refuse.set(false) };
    let j: usize = kani::any();
    kani::assume(j < c.mlen);
    if c.mlen > 0 {
        kani::assert(v.at_(j) == c.m[j], "C08.mut_vec.same_contents_as_the_model");
    }
    let b = v.boxed();
    kani::assert(b.len() == c.mlen, "C17.mut_vec.into_boxed_slice.length");
    let s = unsafe { &*probe };
    if c.mlen > 0 {
        kani::assert(b[j] == c.m[j], "C17.mut_vec.into_boxed_slice.same_contents");
        kani::assert(s.owns(b.as_ptr() as usize, c.mlen * 2) && al(b.as_ptr() as usize, 2), "C17.mut_vec.into_boxed_slice.block_is_live_and_aligned");
    }
    core::mem::forget(b);
    kani::assert(s.used() >= used + c.mlen * 2, "C17.mut_vec.committed_bytes_are_accounted");
}

/// model (slice order): a forward vector appends, a reversed vector prepends
fn model_push<'a, V: MutVecLike<'a, UP>, const UP: bool>(c: &mut Ctx, x: u16) {
    if V::REV {
        let mut j = c.mlen;
        while j > 0 {
            c.m[j] = c.m[j - 1];
            j -= 1;
        }
        c.m[0] = x;
    } else {
        c.m[c.mlen] = x;
    }
    c.mlen += 1;
}

fn mop_reserve<'a, const UP: bool, V: MutVecLike<'a, UP>>(v: &mut V, c: &mut Ctx) -> bool {
    let add: usize = kani::any();
    let ok = v.reserve(add);
    if add > (isize::MAX as usize) / 2 {
        kani::assert(!ok, "C07.mut_vec.overflowing_reserve_is_an_error");
    }
    if ok {
        kani::assert(v.cap_() >= c.len1 + add, "C08.mut_vec.reserve_promise");
    }
    if add <= c.cap1 - c.len1 {
        kani::assert(ok && v.cap_() == c.cap1, "C08.mut_vec.no_reallocation_while_the_capacity_suffices");
    }
    kani::cover!(c.addr1 != 0 || (ok && add > c.cap1 - c.len1 && c.len1 > 0), "reserve-grows");
    kani::cover!(c.addr1 == 0 || (!ok && add < 64 && c.len1 > 0), "reserve-refused");
    kani::cover!(!ok && add > (isize::MAX as usize) / 2 && c.len1 > 0, "reserve-overflows");
    ok
}
fn mop_reserve_exact<'a, const UP: bool, V: MutVecLike<'a, UP>>(v: &mut V, c: &mut Ctx) -> bool {
    let add: usize = kani::any();
    let ok = v.reserve_exact(add);
    if add > (isize::MAX as usize) / 2 {
        kani::assert(!ok, "C07.mut_vec.overflowing_reserve_exact_is_an_error");
    }
    if ok {
        kani::assert(v.cap_() >= c.len1 + add, "C08.mut_vec.reserve_exact_promise");
    }
    if add <= c.cap1 - c.len1 {
        kani::assert(ok && v.cap_() == c.cap1, "C08.mut_vec.no_reallocation_while_the_capacity_suffices");
    }
    kani::cover!(c.addr1 != 0 || (ok && add > c.cap1 - c.len1 && c.len1 > 0), "reserve-exact-grows");
    kani::cover!(!ok && c.len1 > 0, "reserve-exact-fails");
    ok
}
/// fill the vector up to its capacity first (bounded), so that the operation under test has to grow
fn fill<'a, const UP: bool, V: MutVecLike<'a, UP>>(v: &mut V, c: &mut Ctx) {
    // only for the tiny first region: at most 5 more elements
    let mut k = 0;
    while v.len_() < v.cap_() && k < 5 {
        let y = c.x.wrapping_add(7 + k as u16);
        if v.push(y) {
            model_push::<V, UP>(c, y);
        }
        k += 1;
    }
    c.len1 = v.len_();
    c.cap1 = v.cap_();
}
fn mop_push<'a, const UP: bool, V: MutVecLike<'a, UP>>(v: &mut V, c: &mut Ctx) -> bool {
    fill::<UP, V>(v, c);
    let ok = v.push(c.x);
    if ok {
        model_push::<V, UP>(c, c.x);
    }
    kani::cover!(c.addr1 != 0 || (ok && v.cap_() > c.cap1 && c.len1 > 0), "push-grows");
    kani::cover!(c.addr1 == 0 || (!ok && c.len1 > 0), "push-fails");
    ok
}
fn mop_extend<'a, const UP: bool, V: MutVecLike<'a, UP>>(v: &mut V, c: &mut Ctx) -> bool {
    fill::<UP, V>(v, c);
    let ext = [c.x, c.x.wrapping_add(1), c.x.wrapping_add(2)];
    let ok = v.extend(&ext);
    if ok {
        // a reversed vector PREPENDS the slice as a whole
        if V::REV {
            model_push::<V, UP>(c, ext[2]);
            model_push::<V, UP>(c, ext[1]);
            model_push::<V, UP>(c, ext[0]);
        } else {
            model_push::<V, UP>(c, ext[0]);
            model_push::<V, UP>(c, ext[1]);
            model_push::<V, UP>(c, ext[2]);
        }
    }
    kani::cover!(c.addr1 != 0 || (ok && v.cap_() > c.cap1 && c.len1 > 0), "extend-grows");
    kani::cover!(c.addr1 == 0 || (!ok && c.len1 > 0), "extend-fails");
    ok
}
fn mop_insert<'a, const UP: bool, V: MutVecLike<'a, UP>>(v: &mut V, c: &mut Ctx) -> bool {
    fill::<UP, V>(v, c);
    let idx = c.idx;
    let ok = v.insert(idx, c.x);
    if ok {
        let mut j = c.mlen;
        while j > idx {
            c.m[j] = c.m[j - 1];
            j -= 1;
        }
        c.m[idx] = c.x;
        c.mlen += 1;
    }
    kani::cover!(c.addr1 != 0 || (ok && v.cap_() > c.cap1 && idx > 0 && idx < c.len1), "insert-in-the-middle-grows");
    kani::cover!(c.addr1 == 0 || (!ok && c.len1 > 0), "insert-fails");
    ok
}

macro_rules! stubmut {
    ($($name:ident: $up:expr, $ty:ident, $used:expr, $n:expr, $mode:expr, $op:ident;)*) => {$(
        #[kani::proof]
        #[kani::unwind(14)]
        pub(crate) fn $name() {
            let mut stub = StubBump::<$up>::new_at($used);
            ob_stub_mut_vec::<$up, $ty<u16, &mut StubBump<$up>>>(&mut stub, $used, $n, $mode, $op::<$up, $ty<u16, &mut StubBump<$up>>>);
        }
    )*};
}
stubmut! {
    stub_mut_vec_reserve_up: true, MutBumpVec, 56, 2, 0, mop_reserve;
    stub_mut_vec_reserve_dn_refused: false, MutBumpVec, 54, 2, 1, mop_reserve;
    stub_mut_vec_reserve_exact_up: true, MutBumpVec, 54, 2, 0, mop_reserve_exact;
    stub_mut_vec_push_up: true, MutBumpVec, 54, 2, 0, mop_push;
    stub_mut_vec_push_dn: false, MutBumpVec, 56, 2, 0, mop_push;
    stub_mut_vec_push_up_refused: true, MutBumpVec, 56, 2, 1, mop_push;
    stub_mut_vec_push_dn_no_region: false, MutBumpVec, 54, 2, 2, mop_push;
    stub_mut_vec_extend_up: true, MutBumpVec, 56, 2, 0, mop_extend;
    stub_mut_vec_extend_dn: false, MutBumpVec, 54, 2, 0, mop_extend;
    stub_mut_vec_extend_dn_refused: false, MutBumpVec, 56, 2, 1, mop_extend;
    stub_mut_vec_insert_up: true, MutBumpVec, 54, 2, 0, mop_insert;
    stub_mut_vec_insert_dn: false, MutBumpVec, 56, 2, 0, mop_insert;
    stub_mut_vec_insert_up_no_region: true, MutBumpVec, 56, 2, 2, mop_insert;
    stub_mut_vec_rev_reserve_up: true, MutBumpVecRev, 54, 2, 0, mop_reserve;
    stub_mut_vec_rev_reserve_dn_refused: false, MutBumpVecRev, 56, 2, 1, mop_reserve;
    stub_mut_vec_rev_reserve_exact_dn: false, MutBumpVecRev, 54, 2, 0, mop_reserve_exact;
    stub_mut_vec_rev_push_up: true, MutBumpVecRev, 56, 2, 0, mop_push;
    stub_mut_vec_rev_push_dn: false, MutBumpVecRev, 54, 2, 0, mop_push;
    stub_mut_vec_rev_push_dn_refused: false, MutBumpVecRev, 56, 2, 1, mop_push;
    stub_mut_vec_rev_extend_up: true, MutBumpVecRev, 54, 2, 0, mop_extend;
    stub_mut_vec_rev_extend_dn: false, MutBumpVecRev, 56, 2, 0, mop_extend;
    stub_mut_vec_rev_extend_up_no_region: true, MutBumpVecRev, 56, 2, 2, mop_extend;
    stub_mut_vec_rev_insert_up: true, MutBumpVecRev, 56, 2, 0, mop_insert;
    stub_mut_vec_rev_insert_dn: false, MutBumpVecRev, 54, 2, 0, mop_insert;
    stub_mut_vec_rev_insert_dn_refused: false, MutBumpVecRev, 54, 2, 1, mop_insert;
}

// ------------------------------------------------------------------------------------------------ BumpString (C09 / C07)
use super::h_coll::{SymStr, same, sym_text, valid_utf8};
use std::string::String;

pub(crate) type SS<'a, const UP: bool> = BumpString<&'a StubBump<UP>>;

pub(crate) struct SCtx {
    /// std oracle
    pub(crate) m: String,
    /// the text that is pushed / inserted (concrete UTF-8 length pattern, symbolic scalar values)
    pub(crate) x: SymStr,
    /// a concrete boundary index of the original text (the length of its first character) and its total length
    pub(crate) idx: usize,
    pub(crate) total: usize,
    pub(crate) cap1: usize,
    pub(crate) len1: usize,
    pub(crate) addr1: usize,
    pub(crate) refused: bool,
}

/// `BumpString` over the contract: built from a text with the concrete UTF-8 length pattern `pat`, optionally behind
/// another block, then ONE operation `f` with requests served or refused (concrete): on failure nothing changed (C07),
/// otherwise the contents equal std::string::String's after the same operation; always valid UTF-8 (independent
/// validator), capacity >= len, buffer a live block (C01); drop reclaims at most the own buffer.
pub(crate) fn ob_stub_string<const UP: bool>(used: usize, pat: [usize; 2], xpat: [usize; 2], foreign: bool, refused: bool, f: impl FnOnce(&mut SS<'_, UP>, &mut SCtx) -> bool) {
    let stub = StubBump::<UP>::new_at(used);
    let s0 = sym_text(pat);
    let Ok(mut s) = BumpString::try_from_str_in(s0.as_str(), &stub) else {
        kani::assert(false, "C08.bump_string.from_str_that_is_not_refused_succeeds");
        return;
    };
    kani::assert(same(s.as_bytes(), s0.as_str().as_bytes()) && s.capacity() >= s.len(), "C09.bump_string.from_str.same_contents");
    if foreign {
        let _ = stub.allocate(Layout::new::<u16>());
    }
    let mut c = SCtx { m: String::from(s0.as_str()), x: sym_text(xpat), idx: pat[0], total: pat[0] + pat[1], cap1: s.capacity(), len1: s.len(), addr1: s.as_ptr() as usize, refused };
    stub.refuse.set(refused);
    let ok = f(&mut s, &mut c);
    stub.refuse.set(false);
    if !ok {
        kani::assert(s.len() == c.len1 && s.capacity() == c.cap1 && s.as_ptr() as usize == c.addr1, "C07.bump_string.failed_growth_changes_neither_length_capacity_nor_buffer");
    }
    kani::assert(same(s.as_bytes(), c.m.as_bytes()), "C09.bump_string.same_contents_as_std_string");
    kani::assert(valid_utf8(s.as_bytes()), "C09.bump_string.contents_are_valid_utf8");
    kani::assert(s.capacity() >= s.len(), "C08.bump_string.capacity_at_least_len");
    kani::assert(s.capacity() == 0 || stub.owns(s.as_ptr() as usize, s.capacity()), "C01.bump_string.buffer_is_a_live_block");
    drop(s);
    kani::assert(stub.used() >= used, "C13.bump_string.drop_reclaims_only_its_own_buffer");
}

fn first_char(x: &SymStr) -> char {
    x.as_str().chars().next().unwrap()
}
fn sop_push<const UP: bool>(s: &mut SS<'_, UP>, c: &mut SCtx) -> bool {
    let ch = first_char(&c.x);
    let ok = s.try_push(ch).is_ok();
    if ok {
        c.m.push(ch);
    }
    kani::cover!(ok != c.refused, "push-served-or-refused");
    ok
}
fn sop_push_str<const UP: bool>(s: &mut SS<'_, UP>, c: &mut SCtx) -> bool {
    let ok = s.try_push_str(c.x.as_str()).is_ok();
    if ok {
        c.m.push_str(c.x.as_str());
    }
    kani::cover!(ok != c.refused, "push-str-served-or-refused");
    ok
}
fn sop_insert<const UP: bool>(s: &mut SS<'_, UP>, c: &mut SCtx) -> bool {
    let ch = first_char(&c.x);
    let ok = s.try_insert(c.idx, ch).is_ok();
    if ok {
        c.m.insert(c.idx, ch);
    }
    kani::cover!(ok != c.refused, "insert-served-or-refused");
    ok
}
fn sop_insert_str<const UP: bool>(s: &mut SS<'_, UP>, c: &mut SCtx) -> bool {
    let ok = s.try_insert_str(c.idx, c.x.as_str()).is_ok();
    if ok {
        c.m.insert_str(c.idx, c.x.as_str());
    }
    kani::cover!(ok != c.refused, "insert-str-served-or-refused");
    ok
}
fn sop_extend_within<const UP: bool>(s: &mut SS<'_, UP>, c: &mut SCtx) -> bool {
    let ok = s.try_extend_from_within(..c.idx).is_ok();
    if ok {
        c.m.extend_from_within(..c.idx);
    }
    kani::cover!(ok != c.refused, "extend-within-served-or-refused");
    ok
}
fn sop_replace_range<const UP: bool>(s: &mut SS<'_, UP>, c: &mut SCtx) -> bool {
    // replace the second character by the (longer) text x
    let ok = s.try_replace_range(c.idx..c.total, c.x.as_str()).is_ok();
    if ok {
        c.m.replace_range(c.idx..c.total, c.x.as_str());
    }
    kani::cover!(ok != c.refused, "replace-range-served-or-refused");
    ok
}
fn sop_replace_range_shorter<const UP: bool>(s: &mut SS<'_, UP>, c: &mut SCtx) -> bool {
    // replace the first character by the text x (not longer than the capacity: never needs memory)
    let ok = s.try_replace_range(..c.idx, c.x.as_str()).is_ok();
    if ok {
        c.m.replace_range(..c.idx, c.x.as_str());
    }
    kani::cover!(ok, "replace-range-shorter-ok");
    ok
}
fn sop_reserve<const UP: bool>(s: &mut SS<'_, UP>, c: &mut SCtx) -> bool {
    let add: usize = kani::any();
    let ok = s.try_reserve(add).is_ok();
    if add > isize::MAX as usize {
        kani::assert(!ok, "C07.bump_string.overflowing_reserve_is_an_error");
    }
    if ok {
        kani::assert(s.capacity() >= c.len1 + add, "C08.bump_string.reserve_promise");
    }
    if add <= c.cap1 - c.len1 {
        kani::assert(ok && s.capacity() == c.cap1 && s.as_ptr() as usize == c.addr1, "C08.bump_string.no_reallocation_while_the_capacity_suffices");
    }
    kani::cover!(c.refused || (ok && add > c.cap1 - c.len1), "reserve-grows");
    kani::cover!(!ok && add > isize::MAX as usize, "reserve-overflows");
    ok
}
fn sop_shrink_and_box<const UP: bool>(s: &mut SS<'_, UP>, c: &mut SCtx) -> bool {
    let _ = s.try_reserve(4);
    let cap = s.capacity();
    s.shrink_to_fit();
    kani::assert(s.capacity() <= cap && s.capacity() >= s.len(), "C08.bump_string.shrink_to_fit.capacity");
    kani::cover!(s.capacity() < cap, "shrunk");
    true
}

macro_rules! stubstr {
    ($($name:ident: $up:expr, $used:expr, [$a:expr, $b:expr], [$xa:expr, $xb:expr], $foreign:expr, $refused:expr, $op:ident;)*) => {$(
        #[kani::proof]
        #[kani::unwind(12)]
        pub(crate) fn $name() {
            ob_stub_string::<$up>($used, [$a, $b], [$xa, $xb], $foreign, $refused, $op::<$up>);
        }
    )*};
}
stubstr! {
    stub_str_push_up: true, 0, [1, 2], [3, 0], false, false, sop_push;
    stub_str_push_dn: false, 3, [2, 1], [4, 0], false, false, sop_push;
    stub_str_push_foreign_up: true, 0, [3, 1], [2, 0], true, false, sop_push;
    stub_str_push_refused_dn: false, 0, [1, 3], [1, 0], true, true, sop_push;
    stub_str_push_str_up: true, 2, [2, 2], [1, 3], false, false, sop_push_str;
    stub_str_push_str_dn: false, 0, [1, 1], [2, 2], true, false, sop_push_str;
    stub_str_push_str_refused_up: true, 0, [4, 0], [3, 1], false, true, sop_push_str;
    stub_str_insert_up: true, 0, [2, 1], [3, 0], false, false, sop_insert;
    stub_str_insert_dn: false, 1, [1, 4], [2, 0], false, false, sop_insert;
    stub_str_insert_refused_up: true, 0, [3, 2], [4, 0], true, true, sop_insert;
    stub_str_insert_str_up: true, 0, [1, 3], [2, 1], true, false, sop_insert_str;
    stub_str_insert_str_dn: false, 0, [2, 2], [1, 3], false, false, sop_insert_str;
    stub_str_insert_str_refused_dn: false, 2, [4, 1], [1, 1], false, true, sop_insert_str;
    stub_str_extend_within_up: true, 0, [2, 1], [0, 0], false, false, sop_extend_within;
    stub_str_extend_within_dn: false, 0, [3, 1], [0, 0], true, false, sop_extend_within;
    stub_str_extend_within_refused_up: true, 1, [1, 2], [0, 0], false, true, sop_extend_within;
    stub_str_replace_range_up: true, 0, [2, 1], [3, 2], false, false, sop_replace_range;
    stub_str_replace_range_dn: false, 0, [1, 2], [4, 1], true, false, sop_replace_range;
    stub_str_replace_range_refused_dn: false, 0, [3, 1], [2, 2], false, true, sop_replace_range;
    stub_str_replace_range_shorter_up: true, 0, [3, 2], [1, 1], false, true, sop_replace_range_shorter;
    stub_str_replace_range_shorter_dn: false, 0, [4, 1], [2, 0], true, false, sop_replace_range_shorter;
    stub_str_reserve_up: true, 0, [1, 2], [0, 0], false, false, sop_reserve;
    stub_str_reserve_dn: false, 0, [2, 2], [0, 0], true, false, sop_reserve;
    stub_str_reserve_refused_up: true, 2, [3, 0], [0, 0], false, true, sop_reserve;
    stub_str_shrink_up: true, 0, [2, 1], [0, 0], false, false, sop_shrink_and_box;
    stub_str_shrink_dn: false, 0, [1, 3], [0, 0], false, false, sop_shrink_and_box;
}

/// Indices that are out of range or inside a character: `try_insert`, `try_insert_str`, `try_replace_range` (bad start,
/// bad end, start > end) and `try_extend_from_within` never return (std::string::String panics in exactly these cases).
pub(crate) fn ob_stub_string_bad_index<const UP: bool>(pat: [usize; 2]) {
    let stub = StubBump::<UP>::new();
    let s0 = sym_text(pat);
    let Ok(mut s) = BumpString::try_from_str_in(s0.as_str(), &stub) else {
        panic!("not refused");
    };
    let total = pat[0] + pat[1];
    let is_b = |i: usize| i == 0 || i == pat[0] || i == total;
    let (i, j): (usize, usize) = (kani::any(), kani::any());
    kani::assume(i <= total + 1 && j <= total + 1);
    let op: u8 = kani::any();
    kani::assume(op < 5);
    match op {
        0 => {
            kani::assume(!is_b(i));
            let _ = s.try_insert(i, 'x');
        }
        1 => {
            kani::assume(!is_b(i));
            let _ = s.try_insert_str(i, "xy");
        }
        2 => {
            kani::assume(!is_b(i) || !is_b(j) || i > j);
            let _ = s.try_replace_range(i..j, "z");
        }
        3 => {
            kani::assume(!is_b(i) || !is_b(j) || i > j);
            let _ = s.try_extend_from_within(i..j);
        }
        _ => {
            kani::assume(!is_b(i) && i < total);
            s.truncate(i);
        }
    }
    kani::cover!(true, "must-not-reach: a string operation returned on an out-of-range or non-boundary index");
    core::mem::forget(s);
}

macro_rules! stubstr_bad {
    ($($name:ident: $up:expr, [$a:expr, $b:expr];)*) => {$(
        #[kani::proof]
        #[kani::unwind(12)]
        #[kani::should_panic]
        pub(crate) fn $name() {
            ob_stub_string_bad_index::<$up>([$a, $b]);
        }
    )*};
}
stubstr_bad! {
    stub_str_bad_index_up_2_3: true, [2, 3];
    stub_str_bad_index_dn_4_1: false, [4, 1];
    stub_str_bad_index_up_3_2: true, [3, 2];
}

// ------------------------------------------------------------------------------------------------ typed entry points (provided methods of BumpAllocatorTypedScope / MutBumpAllocatorTypedScope)
use crate::traits::{BumpAllocatorTypedScope, MutBumpAllocatorTypedScope};

/// what an entry point produced: address, size in bytes, alignment of the element type
pub(crate) struct Got {
    addr: usize,
    size: usize,
    align: usize,
}

/// The provided methods of `BumpAllocatorTypedScope` are the implementation behind every `alloc*` / `try_alloc*`
/// method (the inherent methods of `Bump` / `BumpScope` forward to them).  Against the allocator contract: each
/// returns a live block of the right size and alignment that holds the value(s) (checked inside `f`), hands out at
/// least that many bytes, and a refused request returns an error (C17 / C01 / C07).
pub(crate) fn ob_stub_scope<const UP: bool>(used: usize, refused: bool, f: impl FnOnce(&StubBump<UP>) -> Option<Got>) {
    let stub = StubBump::<UP>::new_at(used);
    stub.refuse.set(refused);
    let r = f(&stub);
    stub.refuse.set(false);
    let served = r.is_some();
    match r {
        Some(g) => {
            kani::assert(!refused || g.size == 0, "C07.entry_point.refused_request_is_an_error");
            kani::assert(al(g.addr, g.align), "C01.entry_point.block_aligned");
            kani::assert(g.size == 0 || stub.owns(g.addr, g.size), "C01.entry_point.block_inside_owned_memory");
            kani::assert(stub.used() >= used + g.size, "C01.entry_point.block_disjoint_from_earlier_blocks");
        }
        None => {
            kani::assert(stub.used() >= used, "C07.entry_point.error_keeps_earlier_blocks");
        }
    }
    kani::cover!(served != refused, "served-or-refused");
}

fn got<T>(p: *const T, n: usize) -> Option<Got> {
    Some(Got { addr: p as usize, size: n * core::mem::size_of::<T>(), align: core::mem::align_of::<T>() })
}

fn e_alloc<const UP: bool>(s: &StubBump<UP>) -> Option<Got> {
    let x: u32 = kani::any();
    let b = s.try_alloc(x).ok()?;
    kani::assert(*b == x, "C17.try_alloc.value_stored");
    got(BumpBox::into_raw(b).as_ptr(), 1)
}
fn e_alloc_with<const UP: bool>(s: &StubBump<UP>) -> Option<Got> {
    let x: u64 = kani::any();
    let b = s.try_alloc_with(|| x).ok()?;
    kani::assert(*b == x, "C17.try_alloc_with.value_stored");
    got(BumpBox::into_raw(b).as_ptr(), 1)
}
fn e_alloc_default<const UP: bool>(s: &StubBump<UP>) -> Option<Got> {
    let b = s.try_alloc_default::<u32>().ok()?;
    kani::assert(*b == 0, "C17.try_alloc_default.value_stored");
    got(BumpBox::into_raw(b).as_ptr(), 1)
}
fn e_alloc_uninit<const UP: bool>(s: &StubBump<UP>) -> Option<Got> {
    let b = s.try_alloc_uninit::<u64>().ok()?;
    let x: u64 = kani::any();
    let b = b.init(x);
    kani::assert(*b == x, "C17.try_alloc_uninit.init_stores");
    got(BumpBox::into_raw(b).as_ptr(), 1)
}
fn e_slice_copy<const UP: bool>(s: &StubBump<UP>) -> Option<Got> {
    let src: [u16; 3] = kani::any();
    let b = s.try_alloc_slice_copy(&src).ok()?;
    kani::assert(b.len() == 3 && b[0] == src[0] && b[1] == src[1] && b[2] == src[2], "C17.try_alloc_slice_copy.contents");
    got(BumpBox::into_raw(b).as_ptr() as *const u16, 3)
}
fn e_slice_clone<const UP: bool>(s: &StubBump<UP>) -> Option<Got> {
    let src: [u32; 2] = kani::any();
    let b = s.try_alloc_slice_clone(&src).ok()?;
    kani::assert(b.len() == 2 && b[0] == src[0] && b[1] == src[1], "C17.try_alloc_slice_clone.contents");
    got(BumpBox::into_raw(b).as_ptr() as *const u32, 2)
}
fn e_slice_fill<const UP: bool>(s: &StubBump<UP>) -> Option<Got> {
    let x: u16 = kani::any();
    let n: usize = kani::any();
    kani::assume(n <= 4);
    let b = s.try_alloc_slice_fill(n, x).ok()?;
    let j: usize = kani::any();
    kani::assume(j < n);
    kani::assert(b.len() == n && (n == 0 || b[j] == x), "C17.try_alloc_slice_fill.contents");
    got(BumpBox::into_raw(b).as_ptr() as *const u16, n)
}
fn e_slice_fill_with<const UP: bool>(s: &StubBump<UP>) -> Option<Got> {
    let x: u16 = kani::any();
    let mut k = 0u16;
    let b = s
        .try_alloc_slice_fill_with(3, || {
            k += 1;
            x.wrapping_add(k)
        })
        .ok()?;
    kani::assert(b.len() == 3 && b[0] == x.wrapping_add(1) && b[1] == x.wrapping_add(2) && b[2] == x.wrapping_add(3), "C17.try_alloc_slice_fill_with.called_once_per_element_in_order");
    got(BumpBox::into_raw(b).as_ptr() as *const u16, 3)
}
fn e_slice_len_overflow<const UP: bool>(s: &StubBump<UP>) -> Option<Got> {
    // a length whose byte size overflows is an error, never a wrap
    let n: usize = kani::any();
    kani::assume(n > isize::MAX as usize / 4);
    let r = s.try_alloc_uninit_slice::<u32>(n);
    kani::assert(r.is_err(), "C07.try_alloc_uninit_slice.overflowing_length_is_an_error");
    None
}
fn e_uninit_slice<const UP: bool>(s: &StubBump<UP>) -> Option<Got> {
    let n: usize = kani::any();
    kani::assume(n <= 5);
    let b = s.try_alloc_uninit_slice::<u32>(n).ok()?;
    kani::assert(b.len() == n, "C17.try_alloc_uninit_slice.length");
    got(BumpBox::into_raw(b).as_ptr() as *const u32, n)
}
fn e_slice_move<const UP: bool>(s: &StubBump<UP>) -> Option<Got> {
    unsafe { DROPS = [0; super::h_coll::CAP] };
    let r = s.try_alloc_slice_move([Tok(0), Tok(1), Tok(2)]);
    match r {
        Ok(b) => {
            kani::assert(unsafe { DROPS[0] == 0 && DROPS[1] == 0 && DROPS[2] == 0 } && b.len() == 3 && b[0].0 == 0 && b[2].0 == 2, "C06.try_alloc_slice_move.values_moved_not_dropped");
            let p = b.as_ptr();
            drop(b);
            kani::assert(unsafe { DROPS[0] == 1 && DROPS[1] == 1 && DROPS[2] == 1 }, "C06.try_alloc_slice_move.box_drops_each_once");
            got(p, 3)
        }
        Err(_) => {
            kani::assert(unsafe { DROPS[0] == 1 && DROPS[1] == 1 && DROPS[2] == 1 }, "C06.try_alloc_slice_move.refused_call_drops_the_values_once");
            None
        }
    }
}
fn e_str<const UP: bool>(s: &StubBump<UP>) -> Option<Got> {
    let t = sym_text([2, 3]);
    let b = s.try_alloc_str(t.as_str()).ok()?;
    kani::assert(same(b.as_bytes(), t.as_str().as_bytes()), "C17.try_alloc_str.contents");
    let p = b.as_ptr();
    core::mem::forget(b);
    got(p, 5)
}
fn e_iter<const UP: bool>(s: &StubBump<UP>) -> Option<Got> {
    let src: [u16; 3] = kani::any();
    let b = s.try_alloc_iter(src).ok()?;
    kani::assert(b.len() == 3 && b[0] == src[0] && b[1] == src[1] && b[2] == src[2], "C17.try_alloc_iter.contents_in_order");
    got(BumpBox::into_raw(b).as_ptr() as *const u16, 3)
}
fn e_iter_exact<const UP: bool>(s: &StubBump<UP>) -> Option<Got> {
    let src: [u16; 3] = kani::any();
    let b = s.try_alloc_iter_exact(src).ok()?;
    kani::assert(b.len() == 3 && b[0] == src[0] && b[1] == src[1] && b[2] == src[2], "C17.try_alloc_iter_exact.contents_in_order");
    got(BumpBox::into_raw(b).as_ptr() as *const u16, 3)
}
fn e_cstr<const UP: bool>(s: &StubBump<UP>) -> Option<Got> {
    let c = s.try_alloc_cstr(core::ffi::CStr::from_bytes_with_nul(b"ab\0").unwrap()).ok()?;
    let bytes = c.to_bytes_with_nul();
    kani::assert(bytes.len() == 3 && bytes[0] == b'a' && bytes[1] == b'b' && bytes[2] == 0, "C17.try_alloc_cstr.contents_with_terminator");
    got(bytes.as_ptr(), 3)
}
fn e_cstr_from_str<const UP: bool>(s: &StubBump<UP>) -> Option<Got> {
    // an interior nul ends the C string
    let c = s.try_alloc_cstr_from_str("ab\0c").ok()?;
    let bytes = c.to_bytes_with_nul();
    kani::assert(bytes.len() == 3 && bytes[0] == b'a' && bytes[1] == b'b' && bytes[2] == 0, "C17.try_alloc_cstr_from_str.stops_at_the_first_nul");
    got(bytes.as_ptr(), 3)
}

macro_rules! stubscope {
    ($($name:ident: $up:expr, $used:expr, $refused:expr, $op:ident;)*) => {$(
        #[kani::proof]
        #[kani::unwind(10)]
        pub(crate) fn $name() {
            ob_stub_scope::<$up>($used, $refused, $op::<$up>);
        }
    )*};
}
stubscope! {
    stub_scope_alloc_up: true, 1, false, e_alloc;
    stub_scope_alloc_dn: false, 3, false, e_alloc;
    stub_scope_alloc_refused_up: true, 0, true, e_alloc;
    stub_scope_alloc_with_dn: false, 1, false, e_alloc_with;
    stub_scope_alloc_with_refused_up: true, 2, true, e_alloc_with;
    stub_scope_alloc_default_up: true, 5, false, e_alloc_default;
    stub_scope_alloc_uninit_dn: false, 5, false, e_alloc_uninit;
    stub_scope_slice_copy_up: true, 1, false, e_slice_copy;
    stub_scope_slice_copy_dn: false, 1, false, e_slice_copy;
    stub_scope_slice_copy_refused_dn: false, 0, true, e_slice_copy;
    stub_scope_slice_clone_up: true, 3, false, e_slice_clone;
    stub_scope_slice_fill_up: true, 1, false, e_slice_fill;
    stub_scope_slice_fill_dn: false, 3, false, e_slice_fill;
    stub_scope_slice_fill_with_up: true, 0, false, e_slice_fill_with;
    stub_scope_slice_fill_with_dn: false, 1, false, e_slice_fill_with;
    stub_scope_uninit_slice_up: true, 2, false, e_uninit_slice;
    stub_scope_uninit_slice_dn: false, 1, false, e_uninit_slice;
    stub_scope_slice_move_up: true, 1, false, e_slice_move;
    stub_scope_slice_move_dn: false, 0, false, e_slice_move;
    stub_scope_slice_move_refused_up: true, 0, true, e_slice_move;
    stub_scope_str_up: true, 1, false, e_str;
    stub_scope_str_dn: false, 2, false, e_str;
    stub_scope_iter_up: true, 1, false, e_iter;
    stub_scope_iter_dn: false, 1, false, e_iter;
    stub_scope_iter_refused_dn: false, 0, true, e_iter;
    stub_scope_iter_exact_up: true, 3, false, e_iter_exact;
    stub_scope_iter_exact_dn: false, 0, false, e_iter_exact;
    stub_scope_cstr_up: true, 1, false, e_cstr;
    stub_scope_cstr_from_str_dn: false, 1, false, e_cstr_from_str;
}

#[kani::proof]
#[kani::unwind(4)]
pub(crate) fn stub_scope_slice_len_overflow_up() {
    let stub = StubBump::<true>::new();
    let _ = e_slice_len_overflow(&stub);
    kani::cover!(true, "overflowing-length-rejected");
}

// ------------------------------------------------------------------------------------------------ zero-sized elements with Drop + Clone (C06 / C08)
pub(crate) static mut Z_CREATED: usize = 0;
pub(crate) static mut Z_DROPPED: usize = 0;

/// zero-sized, counts constructions (explicit and by `clone`) and drops
pub(crate) struct Z;
impl Z {
    fn new() -> Z {
        unsafe { Z_CREATED += 1 };
        Z
    }
}
impl Clone for Z {
    fn clone(&self) -> Z {
        Z::new()
    }
}
impl Drop for Z {
    fn drop(&mut self) {
        unsafe { Z_DROPPED += 1 };
    }
}

/// The growable vectors with a zero-sized element type: no memory is ever requested, capacity is `usize::MAX`, and at
/// every point the number of drops equals the number of values created minus the number the vector still owns -
/// values materialised "from nothing" inside the collection must never be dropped (C06), counts follow Vec (C08).
pub(crate) fn ob_stub_vec_zst<const UP: bool>(kind: u8) {
    unsafe {
        Z_CREATED = 0;
        Z_DROPPED = 0;
    }
    let mut stub = StubBump::<UP>::new_at(3);
    stub.refuse.set(true); // any request for memory would be refused: there must be none
    macro_rules! body {
        ($v:ident) => {{
            kani::assert($v.capacity() == usize::MAX, "C08.zst.capacity_unlimited");
            kani::assert($v.try_push(Z::new()).is_ok() && $v.try_push(Z::new()).is_ok() && $v.try_push(Z::new()).is_ok(), "C08.zst.push");
            kani::assert(unsafe { Z_CREATED == 3 && Z_DROPPED == 0 } && $v.len() == 3, "C06.zst.push_moves_the_value");
            kani::assert($v.try_extend_from_within_clone(1..3).is_ok() && $v.len() == 5, "C08.zst.extend_from_within_clone");
            kani::assert(unsafe { Z_CREATED == 5 && Z_DROPPED == 0 }, "C06.zst.extend_from_within_clone_creates_by_clone_and_drops_nothing");
            {
                let src = [Z::new(), Z::new()];
                kani::assert($v.try_extend_from_slice_clone(&src).is_ok() && $v.len() == 7, "C08.zst.extend_from_slice_clone");
            }
            kani::assert(unsafe { Z_CREATED == 9 && Z_DROPPED == 2 }, "C06.zst.extend_from_slice_clone_leaves_the_source_to_its_owner");
            kani::assert($v.try_resize(9, Z::new()).is_ok() && $v.len() == 9, "C08.zst.resize_grow");
            kani::assert(unsafe { Z_CREATED - Z_DROPPED } == 9, "C06.zst.resize_grow_accounts_for_every_value");
            $v.truncate(8);
            kani::assert(unsafe { Z_CREATED - Z_DROPPED } == 8 && $v.len() == 8, "C06.zst.truncate_drops_the_tail");
            let popped = $v.pop();
            kani::assert(popped.is_some() && unsafe { Z_CREATED - Z_DROPPED } == 8 && $v.len() == 7, "C06.zst.pop_hands_the_value_out");
            drop(popped);
            let removed = $v.remove(2);
            kani::assert(unsafe { Z_CREATED - Z_DROPPED } == 7 && $v.len() == 6, "C06.zst.remove_hands_the_value_out");
            drop(removed);
            kani::assert(unsafe { Z_CREATED - Z_DROPPED } == 6, "C06.zst.removed_value_dropped_by_the_caller");
            kani::assert($v.try_resize(4, Z::new()).is_ok() && $v.len() == 4 && unsafe { Z_CREATED - Z_DROPPED } == 4, "C06.zst.resize_shrink_drops_the_tail_and_the_unused_value");
            kani::assert($v.try_insert(1, Z::new()).is_ok() && $v.len() == 5 && unsafe { Z_CREATED - Z_DROPPED } == 5, "C06.zst.insert");
            $v.clear();
            kani::assert($v.len() == 0 && unsafe { Z_CREATED == Z_DROPPED }, "C06.zst.clear_drops_every_value_once");
            kani::assert($v.try_push(Z::new()).is_ok(), "C08.zst.push_after_clear");
        }};
    }
    match kind {
        0 => {
            let mut v = BumpVec::<Z, _>::new_in(&stub);
            body!(v);
            drop(v);
        }
        1 => {
            let mut v = MutBumpVec::<Z, _>::new_in(&mut stub);
            body!(v);
            drop(v);
        }
        _ => {
            let mut v = MutBumpVecRev::<Z, _>::new_in(&mut stub);
            body!(v);
            drop(v);
        }
    }
    kani::assert(unsafe { Z_CREATED == Z_DROPPED }, "C06.zst.drop_of_the_vector_drops_every_value_once");
    kani::assert(stub.used() == 3, "C08.zst.no_memory_is_requested");
    kani::cover!(unsafe { Z_CREATED } >= 13, "ran-to-the-end");
}

#[kani::proof]
#[kani::unwind(12)]
pub(crate) fn stub_vec_zst_bump_vec() {
    ob_stub_vec_zst::<true>(0);
}
#[kani::proof]
#[kani::unwind(12)]
pub(crate) fn stub_vec_zst_mut_bump_vec() {
    ob_stub_vec_zst::<false>(1);
}
#[kani::proof]
#[kani::unwind(12)]
pub(crate) fn stub_vec_zst_mut_bump_vec_rev() {
    ob_stub_vec_zst::<true>(2);
}

// ------------------------------------------------------------------------------------------------ MutBumpString, alloc_iter_mut(_rev)
use crate::MutBumpString;

/// `MutBumpString` over the exclusive allocator contract: built from a text with a concrete UTF-8 length pattern, one
/// growing operation (served / refused / new region refused), then `into_boxed_str`: same contents as
/// std::string::String, valid UTF-8, the committed block is live and accounted; a refused growth changes nothing.
pub(crate) fn ob_stub_mut_string<const UP: bool>(used: usize, pat: [usize; 2], xpat: [usize; 2], mode: u8, op: u8) {
    let mut stub = StubBump::<UP>::new_at(used);
    let probe: *const StubBump<UP> = &stub;
    let s0 = sym_text(pat);
    let x = sym_text(xpat);
    let Ok(mut s) = MutBumpString::try_from_str_in(s0.as_str(), &mut stub) else {
        kani::assert(false, "C08.mut_string.from_str_that_is_not_refused_succeeds");
        return;
    };
    let mut m = String::from(s0.as_str());
    let (len1, cap1) = (s.len(), s.capacity());
    unsafe { (*probe).refuse.set(mode == 1) };
    unsafe { (*probe).no_new_region.set(mode == 2) };
    let ok = match op {
        0 => {
            let ch = first_char(&x);
            let ok = s.try_push(ch).is_ok();
            if ok {
                m.push(ch);
            }
            ok
        }
        1 => {
            let ok = s.try_push_str(x.as_str()).is_ok();
            if ok {
                m.push_str(x.as_str());
            }
            ok
        }
        2 => {
            let ok = s.try_insert_str(pat[0], x.as_str()).is_ok();
            if ok {
                m.insert_str(pat[0], x.as_str());
            }
            ok
        }
        3 => {
            let add: usize = kani::any();
            let ok = s.try_reserve(add).is_ok();
            if add > isize::MAX as usize {
                kani::assert(!ok, "C07.mut_string.overflowing_reserve_is_an_error");
            }
            if ok {
                kani::assert(s.capacity() >= len1 + add, "C08.mut_string.reserve_promise");
            }
            ok
        }
        _ => {
            let ok = s.try_extend_from_within(..pat[0]).is_ok();
            if ok {
                m.extend_from_within(..pat[0]);
            }
            ok
        }
    };
    unsafe { (*probe).refuse.set(false) };
    unsafe { (*probe).no_new_region.set(false) };
    if !ok {
        kani::assert(s.len() == len1 && s.capacity() == cap1, "C07.mut_string.failed_growth_changes_neither_length_nor_capacity");
    }
    kani::assert(same(s.as_bytes(), m.as_bytes()) && valid_utf8(s.as_bytes()), "C09.mut_string.same_contents_as_std_and_valid_utf8");
    let b = s.into_boxed_str();
    kani::assert(same(b.as_bytes(), m.as_bytes()) && valid_utf8(b.as_bytes()), "C09.mut_string.into_boxed_str.same_contents_and_valid_utf8");
    let st = unsafe { &*probe };
    kani::assert(b.len() == 0 || st.owns(b.as_ptr() as usize, b.len()), "C17.mut_string.into_boxed_str.block_is_live");
    kani::assert(st.used() >= used + b.len(), "C17.mut_string.committed_bytes_are_accounted");
    core::mem::forget(b);
    kani::cover!(ok == (mode == 0) || op == 3, "served-or-refused");
}

macro_rules! stubmutstr {
    ($($name:ident: $up:expr, $used:expr, [$a:expr, $b:expr], [$xa:expr, $xb:expr], $mode:expr, $op:expr;)*) => {$(
        #[kani::proof]
        #[kani::unwind(12)]
        pub(crate) fn $name() {
            ob_stub_mut_string::<$up>($used, [$a, $b], [$xa, $xb], $mode, $op);
        }
    )*};
}
// `used` = 60: the first region has 4 bytes left, so the text fills it and the operation has to move to the newer region
stubmutstr! {
    stub_mut_str_push_up: true, 60, [2, 2], [3, 0], 0, 0;
    stub_mut_str_push_dn: false, 60, [1, 3], [2, 0], 0, 0;
    stub_mut_str_push_refused_up: true, 60, [3, 1], [4, 0], 1, 0;
    stub_mut_str_push_str_up: true, 60, [4, 0], [1, 2], 0, 1;
    stub_mut_str_push_str_dn: false, 60, [2, 2], [3, 1], 0, 1;
    stub_mut_str_push_str_no_region_dn: false, 60, [1, 3], [2, 2], 2, 1;
    stub_mut_str_insert_str_up: true, 60, [1, 3], [2, 1], 0, 2;
    stub_mut_str_insert_str_dn: false, 60, [3, 1], [1, 1], 0, 2;
    stub_mut_str_insert_str_refused_dn: false, 60, [2, 2], [4, 0], 1, 2;
    stub_mut_str_reserve_up: true, 60, [2, 1], [0, 0], 0, 3;
    stub_mut_str_reserve_refused_dn: false, 60, [1, 2], [0, 0], 1, 3;
    stub_mut_str_extend_within_up: true, 60, [2, 2], [0, 0], 0, 4;
    stub_mut_str_extend_within_no_region_dn: false, 60, [3, 1], [0, 0], 2, 4;
}

/// `try_alloc_iter_mut` / `try_alloc_iter_mut_rev` (provided methods of `MutBumpAllocatorTypedScope`): the slice holds
/// the items in iteration order (reversed for `_rev`), is a live aligned block, and nothing else stays allocated.
pub(crate) fn ob_stub_iter_mut<const UP: bool>(used: usize, rev: bool, refused: bool) {
    let mut stub = StubBump::<UP>::new_at(used);
    let probe: *const StubBump<UP> = &stub;
    stub.refuse.set(refused);
    let src: [u16; 3] = kani::any();
    let r = if rev { (&mut stub).try_alloc_iter_mut_rev(src) } else { (&mut stub).try_alloc_iter_mut(src) };
    let st = unsafe { &*probe };
    match r {
        Ok(b) => {
            kani::assert(!refused, "C07.alloc_iter_mut.refused_is_an_error");
            kani::assert(b.len() == 3, "C17.alloc_iter_mut.length");
            if rev {
                kani::assert(b[0] == src[2] && b[1] == src[1] && b[2] == src[0], "C17.alloc_iter_mut_rev.items_in_reverse_order");
            } else {
                kani::assert(b[0] == src[0] && b[1] == src[1] && b[2] == src[2], "C17.alloc_iter_mut.items_in_order");
            }
            kani::assert(st.owns(b.as_ptr() as usize, 6) && al(b.as_ptr() as usize, 2), "C01.alloc_iter_mut.block_live_and_aligned");
            kani::assert(st.used() >= used + 6 && st.used() <= used + 6 + 1, "C15.alloc_iter_mut.exactly_the_slice_stays_allocated");
            core::mem::forget(b);
        }
        Err(_) => {
            kani::assert(st.used() == used, "C07.alloc_iter_mut.error_leaves_nothing_allocated");
        }
    }
    kani::cover!(true, "ran");
}

macro_rules! stubitermut {
    ($($name:ident: $up:expr, $used:expr, $rev:expr, $refused:expr;)*) => {$(
        #[kani::proof]
        #[kani::unwind(10)]
        pub(crate) fn $name() {
            ob_stub_iter_mut::<$up>($used, $rev, $refused);
        }
    )*};
}
stubitermut! {
    stub_iter_mut_up: true, 1, false, false;
    stub_iter_mut_dn: false, 3, false, false;
    stub_iter_mut_rev_up: true, 3, true, false;
    stub_iter_mut_rev_dn: false, 1, true, false;
    stub_iter_mut_refused_up: true, 0, false, true;
    stub_iter_mut_rev_refused_dn: false, 0, true, true;
}

// (`try_from_utf8_lossy_in` against `String::from_utf8_lossy` was tried for concrete shapes: no verdict within 900 s.)

// ------------------------------------------------------------------------------------------------ panicking twin == try_ twin (C17)
/// an `ExactSizeIterator` that promises `claimed` items and yields `n` (the trait allows a wrong `len()`; nothing unsafe may follow)
pub(crate) struct Lying {
    vals: [u16; 4],
    i: usize,
    n: usize,
    claimed: usize,
}
impl Iterator for Lying {
    type Item = u16;
    fn next(&mut self) -> Option<u16> {
        if self.i < self.n {
            self.i += 1;
            Some(self.vals[self.i - 1])
        } else {
            None
        }
    }
    fn size_hint(&self) -> (usize, Option<usize>) {
        let r = self.claimed - self.i.min(self.claimed);
        (r, Some(r))
    }
}
impl ExactSizeIterator for Lying {}

/// Each panicking method and its `try_` twin, started from the same state: same block (offset inside the region), same
/// number of bytes handed out afterwards, same contents (C17: the twins are interchangeable).
pub(crate) fn ob_stub_twins<const UP: bool>(used: usize, f_try: impl FnOnce(&mut StubBump<UP>) -> (usize, usize), f_pan: impl FnOnce(&mut StubBump<UP>) -> (usize, usize)) {
    let mut s1 = StubBump::<UP>::new_at(used);
    let mut s2 = StubBump::<UP>::new_at(used);
    let (a1, h1) = f_try(&mut s1);
    let (a2, h2) = f_pan(&mut s2);
    kani::assert(a1 - s1.base() == a2 - s2.base(), "C17.twins.same_block");
    kani::assert(s1.used() == s2.used() && s1.in_second_region() == s2.in_second_region(), "C17.twins.same_bytes_handed_out");
    kani::assert(h1 == h2, "C17.twins.same_contents");
    kani::cover!(true, "ran");
}

fn sum3(b: &[u16]) -> usize {
    let mut h = b.len();
    let mut i = 0;
    while i < b.len() && i < 4 {
        h = h.wrapping_mul(31).wrapping_add(b[i] as usize);
        i += 1;
    }
    h
}

macro_rules! twins {
    ($($name:ident: $up:expr, $used:expr, |$s:ident, $v:ident| $try_e:expr, $pan_e:expr;)*) => {$(
        #[kani::proof]
        #[kani::unwind(10)]
        pub(crate) fn $name() {
            let $v: [u16; 4] = kani::any();
            ob_stub_twins::<$up>($used, |$s| { let b = $try_e; let r = (b.as_ptr() as usize, sum3(&b)); core::mem::forget(b); r }, |$s| { let b = $pan_e; let r = (b.as_ptr() as usize, sum3(&b)); core::mem::forget(b); r });
        }
    )*};
}
twins! {
    stub_twins_slice_copy_up: true, 1, |s, v| (&*s).try_alloc_slice_copy(&v[..3]).unwrap(), (&*s).alloc_slice_copy(&v[..3]);
    stub_twins_slice_copy_dn: false, 3, |s, v| (&*s).try_alloc_slice_copy(&v[..3]).unwrap(), (&*s).alloc_slice_copy(&v[..3]);
    stub_twins_slice_fill_with_dn: false, 1, |s, v| (&*s).try_alloc_slice_fill_with(3, || v[1]).unwrap(), (&*s).alloc_slice_fill_with(3, || v[1]);
    stub_twins_iter_up: true, 1, |s, v| (&*s).try_alloc_iter(v).unwrap(), (&*s).alloc_iter(v);
    stub_twins_iter_dn: false, 1, |s, v| (&*s).try_alloc_iter(v).unwrap(), (&*s).alloc_iter(v);
    stub_twins_iter_exact_up: true, 3, |s, v| (&*s).try_alloc_iter_exact(v).unwrap(), (&*s).alloc_iter_exact(v);
    stub_twins_iter_exact_dn: false, 0, |s, v| (&*s).try_alloc_iter_exact(v).unwrap(), (&*s).alloc_iter_exact(v);
    stub_twins_iter_exact_short_up: true, 1, |s, v| (&*s).try_alloc_iter_exact(Lying { vals: v, i: 0, n: 2, claimed: 4 }).unwrap(), (&*s).alloc_iter_exact(Lying { vals: v, i: 0, n: 2, claimed: 4 });
    stub_twins_iter_exact_short_dn: false, 1, |s, v| (&*s).try_alloc_iter_exact(Lying { vals: v, i: 0, n: 2, claimed: 4 }).unwrap(), (&*s).alloc_iter_exact(Lying { vals: v, i: 0, n: 2, claimed: 4 });
    stub_twins_iter_exact_long_dn: false, 0, |s, v| (&*s).try_alloc_iter_exact(Lying { vals: v, i: 0, n: 4, claimed: 2 }).unwrap(), (&*s).alloc_iter_exact(Lying { vals: v, i: 0, n: 4, claimed: 2 });
    stub_twins_iter_mut_up: true, 1, |s, v| (&mut *s).try_alloc_iter_mut(v).unwrap(), (&mut *s).alloc_iter_mut(v);
    stub_twins_iter_mut_rev_dn: false, 1, |s, v| (&mut *s).try_alloc_iter_mut_rev(v).unwrap(), (&mut *s).alloc_iter_mut_rev(v);
}

// ------------------------------------------------------------------------------------------------ splice (C08 / C06) and string drain (C09)
use std::vec::Vec;

/// `BumpVec::splice` against `Vec::splice` for a concrete shape (length 4, concrete range, concrete number of
/// replacement items that is smaller / equal / larger than the range; element values symbolic): removed items in
/// order, resulting contents, drop accounting with tokens.
pub(crate) fn ob_stub_splice<const UP: bool>(lo: usize, hi: usize, nrep: usize, foreign: bool) {
    let stub = StubBump::<UP>::new_at(2);
    let vals: [u16; 4] = kani::any();
    let rep: [u16; 4] = kani::any();
    let Ok(mut v) = BumpVec::<u16, _>::try_with_capacity_in(4, &stub) else { return };
    let mut m: Vec<u16> = Vec::with_capacity(8);
    let mut i = 0;
    while i < 4 {
        kani::assert(v.try_push(vals[i]).is_ok(), "C08.bump_vec.push_within_capacity_succeeds");
        m.push(vals[i]);
        i += 1;
    }
    if foreign {
        let _ = stub.allocate(Layout::new::<u16>());
    }
    let mut removed = [0u16; 4];
    let mut nrem = 0;
    {
        let mut sp = v.splice(lo..hi, Lying { vals: rep, i: 0, n: nrep, claimed: nrep });
        while let Some(x) = sp.next() {
            removed[nrem] = x;
            nrem += 1;
        }
    }
    let mut mrem: Vec<u16> = Vec::with_capacity(4);
    {
        let mut sp = m.splice(lo..hi, Lying { vals: rep, i: 0, n: nrep, claimed: nrep });
        while let Some(x) = sp.next() {
            mrem.push(x);
        }
    }
    kani::assert(nrem == mrem.len() && nrem == hi - lo, "C08.splice.yields_the_removed_range");
    if nrem > 0 {
        let j: usize = kani::any();
        kani::assume(j < nrem);
        kani::assert(removed[j] == mrem[j], "C08.splice.removed_items_in_order");
    }
    kani::assert(v.len() == m.len() && v.len() == 4 - (hi - lo) + nrep && v.capacity() >= v.len(), "C08.splice.length");
    if v.len() > 0 {
        let r: usize = kani::any();
        kani::assume(r < v.len());
        kani::assert(v[r] == m[r], "C08.splice.same_contents_as_vec");
    }
    kani::assert(v.capacity() == 0 || stub.owns(v.as_ptr() as usize, v.capacity() * 2), "C01.splice.buffer_is_a_live_block");
    drop(v);
    kani::cover!(true, "ran");
}

macro_rules! stubsplice {
    ($($name:ident: $up:expr, $lo:expr, $hi:expr, $nrep:expr, $foreign:expr;)*) => {$(
        #[kani::proof]
        #[kani::unwind(10)]
        pub(crate) fn $name() {
            ob_stub_splice::<$up>($lo, $hi, $nrep, $foreign);
        }
    )*};
}
stubsplice! {
    stub_splice_same_up: true, 1, 3, 2, false;
    stub_splice_shorter_dn: false, 1, 3, 1, false;
    stub_splice_longer_up: true, 1, 2, 3, false;
    stub_splice_longer_grows_dn: false, 1, 3, 4, true;
    stub_splice_empty_range_up: true, 2, 2, 2, true;
    stub_splice_to_end_dn: false, 2, 4, 3, false;
    stub_splice_remove_all_up: true, 0, 4, 0, false;
}

/// splice with drop-counting tokens: the removed items are handed out alive, unconsumed removed items are dropped by
/// the Splice, the replacement items are moved in; at the end every token was dropped exactly once
pub(crate) fn ob_stub_splice_drops<const UP: bool>(consume: usize) {
    unsafe { DROPS = [0; super::h_coll::CAP] };
    let stub = StubBump::<UP>::new_at(0);
    let Ok(mut v) = BumpVec::<Tok, _>::try_with_capacity_in(4, &stub) else { return };
    let _ = v.try_push(Tok(0));
    let _ = v.try_push(Tok(1));
    let _ = v.try_push(Tok(2));
    let _ = v.try_push(Tok(3));
    {
        let mut sp = v.splice(1..3, [Tok(4)]);
        let mut k = 0;
        while k < consume {
            let t = sp.next();
            kani::assert(matches!(&t, Some(x) if x.0 as usize == 1 + k) && unsafe { DROPS[1 + k] } == 0, "C06.splice.removed_item_handed_out_alive");
            drop(t);
            k += 1;
        }
    }
    kani::assert(unsafe { DROPS[1] == 1 && DROPS[2] == 1 && DROPS[0] == 0 && DROPS[3] == 0 && DROPS[4] == 0 }, "C06.splice.removed_items_dropped_once_kept_items_alive");
    kani::assert(v.len() == 3 && v[0].0 == 0 && v[1].0 == 4 && v[2].0 == 3, "C08.splice.contents");
    drop(v);
    let mut k = 0;
    while k < 5 {
        kani::assert(unsafe { DROPS[k] } == 1, "C06.splice.every_value_dropped_exactly_once");
        k += 1;
    }
    kani::cover!(true, "ran");
}
#[kani::proof]
#[kani::unwind(10)]
pub(crate) fn stub_splice_drops_consume0_up() {
    ob_stub_splice_drops::<true>(0);
}
#[kani::proof]
#[kani::unwind(10)]
pub(crate) fn stub_splice_drops_consume1_dn() {
    ob_stub_splice_drops::<false>(1);
}
#[kani::proof]
#[kani::unwind(10)]
pub(crate) fn stub_splice_drops_consume2_up() {
    ob_stub_splice_drops::<true>(2);
}

/// `BumpString::drain(range)` for every boundary range of a three-character text (concrete UTF-8 length pattern): the
/// drained characters and the remaining text equal std::string::String's, the rest is valid UTF-8 (C09).
pub(crate) fn ob_stub_string_drain<const UP: bool>(pat: [usize; 3], consume: usize) {
    let b = [0, pat[0], pat[0] + pat[1], pat[0] + pat[1] + pat[2]];
    let mut lo = 0;
    while lo < 4 {
        let mut hi = lo;
        while hi < 4 {
            let stub = StubBump::<UP>::new_at(1);
            let t = super::h_coll::sym_text3(pat);
            let Ok(mut s) = BumpString::try_from_str_in(t.as_str(), &stub) else { return };
            let mut m = String::from(t.as_str());
            {
                let mut d = s.drain(b[lo]..b[hi]);
                let mut md = m.drain(b[lo]..b[hi]);
                let mut k = 0;
                while k < consume {
                    kani::assert(d.next() == md.next(), "C09.drain.yields_the_same_characters");
                    k += 1;
                }
            }
            kani::assert(same(s.as_bytes(), m.as_bytes()) && valid_utf8(s.as_bytes()), "C09.drain.rest_same_as_std_and_valid_utf8");
            drop(s);
            hi += 1;
        }
        lo += 1;
    }
    kani::cover!(true, "all-ranges-done");
}
#[kani::proof]
#[kani::unwind(14)]
pub(crate) fn stub_str_drain_1_2_1_up() {
    ob_stub_string_drain::<true>([1, 2, 1], 1);
}
#[kani::proof]
#[kani::unwind(14)]
pub(crate) fn stub_str_drain_2_1_3_dn() {
    ob_stub_string_drain::<false>([2, 1, 3], 0);
}

// ------------------------------------------------------------------------------------------------ map / try_map / map_in_place / IntoIter of the growable vectors
/// `BumpVec::try_map` (new allocation), `map_in_place` (same allocation, smaller or equal layout) and
/// `MutBumpVec::map_in_place`, plus the by-value iterators of both: element order, closure called once per element,
/// resulting block live and aligned, tokens dropped exactly once when the iterator is dropped half way (C08 / C06).
pub(crate) fn ob_stub_map<const UP: bool>(kind: u8, refused: bool) {
    let mut stub = StubBump::<UP>::new_at(2);
    let probe: *const StubBump<UP> = &stub;
    let vals: [u32; 3] = kani::any();
    match kind {
        0 => {
            // try_map u32 -> u64: a NEW allocation (the element grows)
            let Ok(mut v) = BumpVec::<u32, _>::try_with_capacity_in(3, &stub) else { return };
            let _ = (v.try_push(vals[0]), v.try_push(vals[1]), v.try_push(vals[2]));
            stub.refuse.set(refused);
            let mut calls = 0usize;
            let r = v.try_map(|x| {
                calls += 1;
                (x as u64) << 1
            });
            stub.refuse.set(false);
            match r {
                Ok(w) => {
                    kani::assert(!refused, "C07.try_map.refused_is_an_error");
                    kani::assert(calls == 3 && w.len() == 3 && w[0] == (vals[0] as u64) << 1 && w[1] == (vals[1] as u64) << 1 && w[2] == (vals[2] as u64) << 1, "C08.try_map.maps_each_element_once_in_order");
                    kani::assert(al(w.as_ptr() as usize, 8) && stub.owns(w.as_ptr() as usize, w.capacity() * 8), "C01.try_map.block_live_and_aligned");
                }
                Err(_) => kani::assert(refused, "C07.try_map.error_only_when_refused"),
            }
        }
        1 => {
            // map_in_place u32 -> u16: the same allocation, capacity recomputed for the smaller element
            let Ok(mut v) = BumpVec::<u32, _>::try_with_capacity_in(3, &stub) else { return };
            let _ = (v.try_push(vals[0]), v.try_push(vals[1]), v.try_push(vals[2]));
            let (addr, bytes) = (v.as_ptr() as usize, v.capacity() * 4);
            let w = v.map_in_place(|x| x as u16);
            kani::assert(w.len() == 3 && w[0] == vals[0] as u16 && w[1] == vals[1] as u16 && w[2] == vals[2] as u16, "C08.map_in_place.maps_each_element_in_order");
            kani::assert(w.as_ptr() as usize == addr && w.capacity() * 2 <= bytes && w.capacity() >= 3, "C08.map_in_place.same_allocation_capacity_inside_it");
            drop(w);
        }
        2 => {
            let mut v = MutBumpVec::<u32, _>::new_in(&mut stub);
            let _ = (v.try_push(vals[0]), v.try_push(vals[1]), v.try_push(vals[2]));
            let w = v.map_in_place(|x| x as u16);
            kani::assert(w.len() == 3 && w[0] == vals[0] as u16 && w[1] == vals[1] as u16 && w[2] == vals[2] as u16 && w.capacity() >= 3, "C08.mut_vec.map_in_place.maps_each_element_in_order");
            let b = w.into_boxed_slice();
            let st = unsafe { &*probe };
            kani::assert(b.len() == 3 && b[2] == vals[2] as u16 && st.owns(b.as_ptr() as usize, 6) && al(b.as_ptr() as usize, 2), "C17.mut_vec.map_in_place.commit_is_a_live_aligned_block");
            core::mem::forget(b);
        }
        _ => {
            // by-value iterators with drop-counting tokens: consumed from both ends, rest dropped with the iterator
            unsafe { DROPS = [0; super::h_coll::CAP] };
            let mut v = MutBumpVec::<Tok, _>::new_in(&mut stub);
            let _ = (v.try_push(Tok(0)), v.try_push(Tok(1)), v.try_push(Tok(2)), v.try_push(Tok(3)));
            let mut it = v.into_iter();
            let f = it.next();
            let l = it.next_back();
            kani::assert(matches!(&f, Some(t) if t.0 == 0) && matches!(&l, Some(t) if t.0 == 3) && it.len() == 2, "C08.mut_vec.into_iter.both_ends");
            kani::assert(unsafe { DROPS[0] == 0 && DROPS[3] == 0 && DROPS[1] == 0 && DROPS[2] == 0 }, "C06.mut_vec.into_iter.nothing_dropped_while_alive");
            drop(it);
            kani::assert(unsafe { DROPS[1] == 1 && DROPS[2] == 1 && DROPS[0] == 0 && DROPS[3] == 0 }, "C06.mut_vec.into_iter.rest_dropped_once_with_the_iterator");
            drop(f);
            drop(l);
            kani::assert(unsafe { DROPS[0] == 1 && DROPS[3] == 1 }, "C06.mut_vec.into_iter.yielded_values_dropped_by_the_caller");
        }
    }
    kani::cover!(true, "ran");
}

macro_rules! stubmap {
    ($($name:ident: $up:expr, $kind:expr, $refused:expr;)*) => {$(
        #[kani::proof]
        #[kani::unwind(10)]
        pub(crate) fn $name() {
            ob_stub_map::<$up>($kind, $refused);
        }
    )*};
}
stubmap! {
    stub_map_try_map_up: true, 0, false;
    stub_map_try_map_dn: false, 0, false;
    stub_map_try_map_refused_up: true, 0, true;
    stub_map_in_place_up: true, 1, false;
    stub_map_in_place_dn: false, 1, false;
    stub_map_mut_in_place_up: true, 2, false;
    stub_map_mut_in_place_dn: false, 2, false;
    stub_map_mut_into_iter_up: true, 3, false;
    stub_map_mut_into_iter_dn: false, 3, false;
}

// ------------------------------------------------------------------------------------------------ into_cstr (C09), zero-sized twins (C17), extend_from_within on the exclusive vectors (C08)
/// `BumpString::try_into_cstr`: the C string ends at the FIRST nul byte (byte index, also after multi-byte
/// characters) or gets a terminator appended; bytes before the nul are kept exactly.
pub(crate) fn ob_stub_into_cstr<const UP: bool>(pat: [usize; 2], with_nul: bool, refused: bool) {
    let stub = StubBump::<UP>::new_at(1);
    let t = sym_text(pat);
    // the text itself has no nul (a one-byte character may be any ASCII value)
    let mut z = 0;
    while z < t.len {
        kani::assume(t.bytes[z] != 0);
        z += 1;
    }
    let Ok(mut s) = BumpString::try_from_str_in(t.as_str(), &stub) else { return };
    if with_nul {
        kani::assert(s.try_push('\0').is_ok() && s.try_push('z').is_ok(), "C08.bump_string.push_not_refused");
    }
    let n = pat[0] + pat[1];
    stub.refuse.set(refused);
    let r = s.try_into_cstr();
    stub.refuse.set(false);
    match r {
        Ok(c) => {
            let b = c.to_bytes_with_nul();
            kani::assert(b.len() == n + 1 && b[n] == 0 && same(&b[..n], t.as_str().as_bytes()), "C09.into_cstr.text_up_to_the_first_nul_plus_terminator");
            kani::assert(stub.owns(b.as_ptr() as usize, n + 1), "C01.into_cstr.block_is_live");
        }
        Err(_) => kani::assert(refused && !with_nul, "C07.into_cstr.error_only_when_the_terminator_needs_memory_that_is_refused"),
    }
    kani::cover!(true, "ran");
}
macro_rules! stubcstr {
    ($($name:ident: $up:expr, [$a:expr, $b:expr], $nul:expr, $refused:expr;)*) => {$(
        #[kani::proof]
        #[kani::unwind(12)]
        pub(crate) fn $name() {
            ob_stub_into_cstr::<$up>([$a, $b], $nul, $refused);
        }
    )*};
}
stubcstr! {
    stub_into_cstr_nul_after_multibyte_up: true, [3, 2], true, false;
    stub_into_cstr_nul_after_multibyte_dn: false, [2, 4], true, true;
    stub_into_cstr_no_nul_up: true, [1, 3], false, false;
    stub_into_cstr_no_nul_dn: false, [2, 1], false, false;
}

/// zero-sized element types with an alignment above the position's: both twins behave alike (no memory, no padding)
#[kani::proof]
#[kani::unwind(8)]
pub(crate) fn stub_twins_zst_slice_fill_with_up() {
    let mut calls = (0usize, 0usize);
    ob_stub_twins::<true>(
        1,
        |s| {
            let b = (&*s).try_alloc_slice_fill_with::<[u64; 0]>(3, || {
                calls.0 += 1;
                []
            }).unwrap();
            let r = (b.as_ptr() as usize + s.base(), b.len());
            core::mem::forget(b);
            r
        },
        |s| {
            let b = (&*s).alloc_slice_fill_with::<[u64; 0]>(3, || {
                calls.1 += 1;
                []
            });
            let r = (b.as_ptr() as usize + s.base(), b.len());
            core::mem::forget(b);
            r
        },
    );
    kani::assert(calls == (3, 3), "C17.twins.closure_called_once_per_element");
}
#[kani::proof]
#[kani::unwind(8)]
pub(crate) fn stub_twins_zst_slice_fill_dn() {
    ob_stub_twins::<false>(
        3,
        |s| {
            let b = (&*s).try_alloc_slice_fill::<[u32; 0]>(2, []).unwrap();
            let r = (b.as_ptr() as usize + s.base(), b.len());
            core::mem::forget(b);
            r
        },
        |s| {
            let b = (&*s).alloc_slice_fill::<[u32; 0]>(2, []);
            let r = (b.as_ptr() as usize + s.base(), b.len());
            core::mem::forget(b);
            r
        },
    );
}
#[kani::proof]
#[kani::unwind(8)]
pub(crate) fn stub_twins_zst_no_memory() {
    // neither twin asks the allocator for anything: the stub refuses everything
    let stub = StubBump::<true>::new_at(1);
    stub.refuse.set(true);
    let a = (&stub).try_alloc_slice_fill_with::<[u64; 0]>(3, || []);
    let b = (&stub).alloc_slice_fill_with::<[u64; 0]>(3, || []);
    let c = (&stub).alloc_slice_copy::<[u16; 0]>(&[[], []]);
    kani::assert(a.is_ok() && b.len() == 3 && c.len() == 2 && stub.used() == 1, "C17.zst.no_memory_is_requested_by_either_twin");
    kani::cover!(true, "ran");
}

/// `try_extend_from_within_copy` on a FULL exclusive vector (has to move to the newer region): same contents as the
/// model (a reversed vector prepends the copied range as a whole)
pub(crate) fn ob_stub_mut_extend_within<const UP: bool, const REV: bool>(mode: u8) {
    let mut stub = StubBump::<UP>::new_at(56);
    let probe: *const StubBump<UP> = &stub;
    let vals: [u16; 4] = kani::any();
    macro_rules! body {
        ($v:ident) => {{
            let mut i = 0;
            while i < 4 {
                kani::assert($v.try_push(vals[i]).is_ok(), "C08.mut_vec.push_that_is_not_refused_succeeds");
                i += 1;
            }
            kani::assert($v.len() == $v.capacity(), "harness: the vector is full");
            let before: [u16; 4] = [$v[0], $v[1], $v[2], $v[3]];
            unsafe { (*probe).refuse.set(mode == 1) };
            let ok = $v.try_extend_from_within_copy(1..3).is_ok();
            unsafe { (*probe).refuse.set(false) };
            if ok {
                kani::assert($v.len() == 6, "C08.mut_vec.extend_from_within.length");
                if REV {
                    kani::assert($v[0] == before[1] && $v[1] == before[2] && $v[2] == before[0] && $v[5] == before[3], "C08.mut_vec_rev.extend_from_within.prepends_the_range_in_order");
                } else {
                    kani::assert($v[4] == before[1] && $v[5] == before[2] && $v[0] == before[0] && $v[3] == before[3], "C08.mut_vec.extend_from_within.appends_the_range_in_order");
                }
            } else {
                kani::assert(mode == 1 && $v.len() == 4 && $v[0] == before[0] && $v[3] == before[3], "C07.mut_vec.extend_from_within.refused_changes_nothing");
            }
            core::mem::forget($v);
            ok
        }};
    }
    let ok = if REV {
        let mut v = MutBumpVecRev::<u16, _>::new_in(&mut stub);
        body!(v)
    } else {
        let mut v = MutBumpVec::<u16, _>::new_in(&mut stub);
        body!(v)
    };
    kani::cover!(ok == (mode == 0), "served-or-refused");
}
macro_rules! stubmew {
    ($($name:ident: $up:expr, $rev:expr, $mode:expr;)*) => {$(
        #[kani::proof]
        #[kani::unwind(10)]
        pub(crate) fn $name() {
            ob_stub_mut_extend_within::<$up, $rev>($mode);
        }
    )*};
}
stubmew! {
    stub_mut_extend_within_up: true, false, 0;
    stub_mut_extend_within_dn: false, false, 0;
    stub_mut_extend_within_refused_up: true, false, 1;
    stub_mut_rev_extend_within_up: true, true, 0;
    stub_mut_rev_extend_within_dn: false, true, 0;
    stub_mut_rev_extend_within_refused_dn: false, true, 1;
}
