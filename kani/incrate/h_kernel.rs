//! Layer I cross-check: the integer kernel on its FULL 64-bit domain (loop-free => complete).
//! Each harness is the Kani twin of a Verus contract (same pre/post), run on the real
//! function compiled with its debug assertions, so it also checks the `debug_assert`s the
//! Verus extraction drops and delivers concrete counterexamples.
use core::alloc::Layout;

use super::spec::*;
use crate::bumping::{bump_down, bump_prepare_down, bump_prepare_up, bump_up};

#[kani::proof]
pub(crate) fn k_bump_up() {
    let p = Props::any();
    kani::assume(p.valid(true));
    let r = bump_up(p.bump_props());
    kani::assert(post_bump_up(&p, &r), "C11.bump_up.post");
    kani::cover!(r.is_some(), "some");
    kani::cover!(r.is_none() && p.start <= p.end, "none-regular");
    kani::cover!(p.start > p.end, "dummy");
    kani::cover!(r.is_some() && p.align > 16, "some-big-align");
    kani::cover!(r.is_some() && p.align_is_const && p.size_is_const && p.size_is_multiple_of_align, "some-sized-hints");
}

#[kani::proof]
pub(crate) fn k_bump_down() {
    let p = Props::any();
    kani::assume(p.valid(false));
    let r = bump_down(p.bump_props());
    kani::assert(post_bump_down(&p, &r), "C11.bump_down.post");
    kani::cover!(r.is_some(), "some");
    kani::cover!(r.is_none() && p.start <= p.end, "none-regular");
    kani::cover!(p.start > p.end, "dummy");
    kani::cover!(r.is_some() && p.align > 16, "some-big-align");
    kani::cover!(r.is_some() && p.align_is_const && p.size_is_const && p.size_is_multiple_of_align, "some-sized-hints");
}

#[kani::proof]
pub(crate) fn k_bump_prepare_up() {
    let p = Props::any();
    kani::assume(p.valid(true) && al(p.size, p.align));
    let r = bump_prepare_up(p.bump_props());
    kani::assert(post_prepare_up(&p, &r), "C11.bump_prepare_up.post");
    kani::cover!(r.is_some(), "some");
    kani::cover!(r.is_none() && p.start <= p.end, "none-regular");
    kani::cover!(p.start > p.end, "dummy");
}

#[kani::proof]
pub(crate) fn k_bump_prepare_down() {
    let p = Props::any();
    kani::assume(p.valid(false) && al(p.size, p.align));
    let r = bump_prepare_down(p.bump_props());
    kani::assert(post_prepare_down(&p, &r), "C11.bump_prepare_down.post");
    kani::cover!(r.is_some(), "some");
    kani::cover!(r.is_none() && p.start <= p.end, "none-regular");
    kani::cover!(p.start > p.end, "dummy");
}

// ------------------------------------------------------------------ src/chunk/size_config.rs

use crate::chunk::ChunkSizeConfig;

pub(crate) struct Cfg {
    pub up: bool,
    pub hs: usize,
    pub ha: usize,
}

impl Cfg {
    /// every configuration `config::<A,S>()` can yield: header align >= 16, size >= 32, multiple of align
    pub(crate) fn any() -> Self {
        let ha_log: u8 = kani::any();
        kani::assume(ha_log >= 4 && ha_log < 64);
        let ha = 1usize << ha_log;
        let hs: usize = kani::any();
        kani::assume(hs >= 32 && al(hs, ha) && Layout::from_size_align(hs, ha).is_ok());
        Cfg { up: kani::any(), hs, ha }
    }
    pub(crate) fn cfg(&self) -> ChunkSizeConfig {
        ChunkSizeConfig {
            up: self.up,
            assumed_malloc_overhead_layout: Layout::new::<[usize; 2]>(),
            chunk_header_layout: Layout::from_size_align(self.hs, self.ha).unwrap(),
        }
    }
    pub(crate) fn size_align(&self) -> usize {
        if self.up { 16 } else { self.ha }
    }
    pub(crate) fn min_hint(&self) -> u128 {
        up128(16, self.ha as u128) + self.hs as u128
    }
    pub(crate) fn hint_for_bytes(&self, bytes: u128) -> u128 {
        if self.up {
            up128(16, self.ha as u128) + self.hs as u128 + bytes + 16
        } else {
            up128(16 + bytes, self.ha as u128) + self.hs as u128 + 16
        }
    }
}

#[kani::proof]
pub(crate) fn k_align_size() {
    let c = Cfg::any();
    let size: usize = kani::any();
    let r = c.cfg().align_size(size);
    kani::assert(is_down(size as u128, c.size_align() as u128, r as u128), "C12.align_size.post");
    kani::cover!(r != size, "rounded");
    kani::cover!(!c.up && c.ha > 16, "over-aligned-header-down");
}

#[kani::proof]
pub(crate) fn k_calc_size_from_hint() {
    let c = Cfg::any();
    let hint: usize = kani::any();
    let r = c.cfg().calc_size_from_hint(hint);
    let min = c.min_hint();
    let h = if hint as u128 > min { hint as u128 } else { min };
    let step: u128 = if c.ha > 0x1000 { c.ha as u128 } else { 0x1000 };
    let overflow = h >= step && up128(h, step) > usize::MAX as u128;
    match r {
        None => kani::assert(overflow, "C12.calc_size_from_hint.none_only_on_overflow"),
        Some(s) => {
            let s = s.get() as u128;
            kani::assert(!overflow, "C12.calc_size_from_hint.overflow_is_none");
            kani::assert(s & 15 == 0, "C12.calc_size_from_hint.multiple_of_16");
            kani::assert(s & (c.size_align() as u128 - 1) == 0, "C12.calc_size_from_hint.multiple_of_header_align_when_down");
            kani::assert(s + 16 >= h, "C12.calc_size_from_hint.large_enough_for_hint");
            kani::assert(s >= c.hs as u128, "C12.calc_size_from_hint.header_fits");
            kani::assert(if h < step { s < 2 * h } else { s < h + step }, "C12.calc_size_from_hint.upper_bound");
        }
    }
    kani::cover!(r.is_none(), "none");
    kani::cover!(r.is_some() && h < step, "pow2-path");
    kani::cover!(r.is_some() && h >= step, "step-path");
    kani::cover!(r.is_some() && !c.up && c.ha > 16, "over-aligned-header-down");
}

#[kani::proof]
pub(crate) fn k_calc_hint_from_capacity() {
    let c = Cfg::any();
    let size: usize = kani::any();
    let align_log: u8 = kani::any();
    kani::assume(align_log < 64);
    let align = 1usize << align_log;
    let layout = Layout::from_size_align(size, align);
    kani::assume(layout.is_ok());
    let layout = layout.unwrap();
    let pad = if align > c.ha { align - c.ha } else { 0 };
    let want = c.hint_for_bytes(size as u128 + pad as u128);
    let r = c.cfg().calc_hint_from_capacity(layout);
    match r {
        None => kani::assert(want > usize::MAX as u128, "C12.calc_hint_from_capacity.none_only_on_overflow"),
        Some(h) => kani::assert(h as u128 == want, "C12.calc_hint_from_capacity.exact"),
    }
    let bytes: usize = kani::any();
    let want_b = c.hint_for_bytes(bytes as u128);
    match c.cfg().calc_hint_from_capacity_bytes(bytes) {
        None => kani::assert(want_b > usize::MAX as u128, "C12.calc_hint_from_capacity_bytes.none_only_on_overflow"),
        Some(h) => kani::assert(h as u128 == want_b, "C12.calc_hint_from_capacity_bytes.exact"),
    }
    kani::cover!(r.is_none(), "none");
    kani::cover!(r.is_some() && pad > 0, "some-with-padding");
    kani::cover!(r.is_some() && !c.up, "some-down");
}

// ------------------------------------------------------------------ src/lib.rs helpers

#[kani::proof]
pub(crate) fn k_align_pos() {
    let up: bool = kani::any();
    let m_log: u8 = kani::any();
    kani::assume(m_log <= 4);
    let m = 1usize << m_log;
    let pos: usize = kani::any();
    // precondition: aligning upwards must not overflow (a position inside a chunk never does, c18::align_pos_in_range)
    kani::assume(!up || pos <= usize::MAX - (m - 1));
    let r = crate::align_pos(up, m, pos);
    if up {
        kani::assert(is_up(pos as u128, m as u128, r as u128), "C18.align_pos.up");
    } else {
        kani::assert(is_down(pos as u128, m as u128, r as u128), "C18.align_pos.down");
    }
    kani::cover!(r != pos && up, "moved-up");
    kani::cover!(r != pos && !up, "moved-down");
}

#[kani::proof]
pub(crate) fn k_lib_bump_down() {
    let addr: usize = kani::any();
    kani::assume(addr != 0);
    let size: usize = kani::any();
    let a_log: u8 = kani::any();
    kani::assume(a_log < 64);
    let align = 1usize << a_log;
    let r = crate::bump_down(core::num::NonZeroUsize::new(addr).unwrap(), size, align);
    let sub = if addr >= size { addr - size } else { 0 };
    kani::assert(is_down(sub as u128, align as u128, r as u128), "C13.lib_bump_down.post");
    kani::cover!(addr < size, "saturated");
    kani::cover!(r != sub, "rounded");
}

// ------------------------------------------------------------------ C12 end to end on the integer level

/// The real `calc_hint_from_capacity` -> `calc_size_from_hint` -> `align_size` -> `bump_up`/`bump_down`
/// chain, exactly as `NonDummyChunk::new` / `append_for` / `in_another_chunk` compose them, for every
/// header layout, direction, minimum alignment, extra size hint, base address and over-grant:
/// the layout that caused the chunk is allocatable in it (the fact `unreachable_unchecked` relies on).
///
/// BOUNDED stand-in (the unbounded statement is the Verus lemma c12::fresh_chunk_fits): header
/// align <= 256, header size <= 512, layout size < 2^16, align <= 2^12, extra hint < 2^17,
/// over-grant <= 4096, base address < 2^40.  On the full 64-bit domain CBMC does not finish (900 s).
#[kani::proof]
pub(crate) fn k_fresh_chunk_fits() {
    let c = Cfg::any();
    kani::assume(c.ha <= 256 && c.hs <= 512);
    let size: usize = kani::any();
    kani::assume(size < (1 << 16));
    let align_log: u8 = kani::any();
    kani::assume(align_log <= 12);
    let align = 1usize << align_log;
    kani::assume(Layout::from_size_align(size, align).is_ok());
    let layout = Layout::from_size_align(size, align).unwrap();
    let other_hint: usize = kani::any();
    kani::assume(other_hint < (1 << 17));

    let Some(h) = c.cfg().calc_hint_from_capacity(layout) else { return };
    let hint = if h > other_hint { h } else { other_hint };
    let Some(s) = c.cfg().calc_size_from_hint(hint) else { return };
    let s = s.get();
    // what the base allocator granted: at least the requested size, at an address aligned for the header
    let granted: usize = kani::any();
    kani::assume(granted >= s && granted - s <= 4096);
    let ptr: usize = kani::any();
    kani::assume(ptr != 0 && al(ptr, c.ha) && ptr < (1 << 40));

    let csize = c.cfg().align_size(granted);
    kani::assert(s <= csize && csize <= granted, "C05.chunk_size_between_requested_and_granted");
    kani::assert(csize >= c.hs, "C10.header_inside_granted_block");

    let mut p = Props::any();
    p.size = size;
    p.align = align;
    if c.up {
        p.start = ptr + c.hs;
        p.end = ptr + csize;
        kani::assume(!p.size_is_multiple_of_align || al(size, align));
        kani::assert(p.valid(true), "C10.fresh_range_is_valid_up");
        let r = bump_up(p.bump_props());
        kani::assert(r.is_some(), "C12.fresh_chunk_fits_up");
        if al(size, align) {
            kani::assert(bump_prepare_up(p.bump_props()).is_some(), "C12.fresh_chunk_fits_prepare_up");
        }
    } else {
        p.start = ptr;
        p.end = ptr + csize - c.hs;
        kani::assume(!p.size_is_multiple_of_align || al(size, align));
        kani::assert(p.valid(false), "C10.fresh_range_is_valid_down");
        let r = bump_down(p.bump_props());
        kani::assert(r.is_some(), "C12.fresh_chunk_fits_down");
        if al(size, align) {
            kani::assert(bump_prepare_down(p.bump_props()).is_some(), "C12.fresh_chunk_fits_prepare_down");
        }
    }
    kani::cover!(c.up && align > c.ha, "up-with-padding");
    kani::cover!(!c.up && align > c.ha, "down-with-padding");
    kani::cover!(granted > s, "over-granted");
    kani::cover!(!c.up && c.ha > 16, "over-aligned-header-down");
}
