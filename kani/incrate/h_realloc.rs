//! Layer II: contracts of the functions that COPY memory: `allocator_impl::{grow, grow_zeroed,
//! shrink}`, `Allocator::allocate_zeroed` as used by `BumpScope`, `WithoutShrink::shrink`,
//! `WithoutDealloc::*` -- C02 (byte frames), C01, C13, C10.
//!
//! The live block is ANY sub-block of the allocated region (so split-off parts, C16, and
//! blocks of earlier chunks are instances), old/new layouts have independent alignments.
//! Byte statements are universally quantified through nondeterministic witness bytes.
use core::{alloc::Layout, ptr::NonNull};

use super::{h_arena::*, spec::*, state::*};
use crate::{
    BumpScope, WithoutDealloc, WithoutShrink,
    alloc::{AllocError, Allocator},
    polyfill::transmute_ref,
    settings::BumpAllocatorSettings,
};

#[derive(Clone, Copy, PartialEq, Eq)]
pub(crate) enum Op {
    Grow,
    GrowZeroed,
    Shrink,
    WithoutShrinkShrink,
    WithoutDeallocGrow,
    WithoutDeallocShrink,
}

/// A live block: pointer with provenance, address, layout; lies inside one chunk's content
/// and inside the allocated region.
pub(crate) fn any_live_block<A, S>(a: &Arena<A, S>, max_size: usize, max_align_log: u8) -> (*mut u8, usize, Layout, usize)
where
    A: crate::BaseAllocator<S::GuaranteedAllocated> + Default,
    S: BumpAllocatorSettings,
{
    let (bp, ba) = any_byte_in_grants(a.k);
    let bl = any_layout(max_size, max_align_log);
    kani::assume(al(ba, bl.align()));
    let mut gi = 3;
    let mut i = 0;
    while i < a.k {
        let g = a.geo(i);
        if ba >= g.content_start && ba + bl.size() <= g.content_end {
            gi = i;
        }
        i += 1;
    }
    kani::assume(gi < a.k);
    kani::assume(bl.size() == 0 || (a.is_allocated(ba) && a.is_allocated(ba + bl.size() - 1)));
    // a zero-sized block is represented by any aligned address inside a chunk (e.g. a dangling-like pointer into it)
    (bp, ba, bl, gi)
}

/// The shared contract of grow / grow_zeroed / shrink and the wrapper variants.
pub(crate) fn ob_realloc<A, S>(k: usize, hint: usize, op: Op, max_old: usize, max_new: usize, may_fail: bool, budget: usize)
where
    A: crate::BaseAllocator<S::GuaranteedAllocated> + Default,
    S: BumpAllocatorSettings,
{
    let mut a = Arena::<A, S>::build(k, hint);
    a.havoc();
    let ci = a.cur;
    let before = a.snaps();
    let bytes = a.allocated_bytes();
    let (bp, ba, old, gi) = any_live_block(&a, max_old, 4);
    let growing = matches!(op, Op::Grow | Op::GrowZeroed | Op::WithoutDeallocGrow);
    let new = {
        let size: usize = kani::any();
        if growing {
            kani::assume(size >= old.size() && size <= max_new);
        } else {
            kani::assume(size <= old.size());
        }
        let al_log: u8 = kani::any();
        kani::assume(al_log <= 5);
        Layout::from_size_align(size, 1usize << al_log).unwrap()
    };
    // prefix witness: byte j of the old block
    let keep = if old.size() < new.size() { old.size() } else { new.size() };
    let j: usize = kani::any();
    kani::assume(j < keep || keep == 0);
    let pv = if keep > 0 { unsafe { *bp.add(j) } } else { 0 };
    // foreign witness: any byte of any grant
    let (wp, wa) = any_byte_in_grants(k);
    let w_old = unsafe { *wp };
    let w_alloc = a.is_allocated(wa);
    let w_in_old = wa >= ba && wa < ba + old.size();
    let w_free = a.is_free(wa);
    unsafe {
        MAY_FAIL = may_fail;
        BUDGET = budget;
    }
    let pos = before[ci].pos;
    let was_last = if S::UP { ba + old.size() == pos } else { ba == pos };

    let scope: &BumpScope<'_, A, S> = unsafe { transmute_ref(&a.bump) };
    let p = unsafe { NonNull::new_unchecked(bp) };
    let r = unsafe {
        match op {
            Op::Grow => crate::allocator_impl::grow(&a.bump, p, old, new),
            Op::GrowZeroed => crate::allocator_impl::grow_zeroed(&a.bump, p, old, new),
            Op::Shrink => crate::allocator_impl::shrink(&a.bump, p, old, new),
            Op::WithoutShrinkShrink => WithoutShrink(scope).shrink(p, old, new),
            Op::WithoutDeallocGrow => WithoutDealloc(scope).grow(p, old, new),
            Op::WithoutDeallocShrink => WithoutDealloc(scope).shrink(p, old, new),
        }
    };
    unsafe {
        MAY_FAIL = false;
        BUDGET = usize::MAX;
    }
    let n_grants = unsafe { N_GRANTS };
    match r {
        Ok(np) => {
            let na = np.as_ptr() as *mut u8 as usize;
            let nlen = np.len();
            kani::assert(al(na, new.align()), "C01.realloc.aligned");
            kani::assert(nlen >= new.size(), "C01.realloc.at_least_as_large_as_requested");
            // the new block lies in owned content memory
            let mut inside = false;
            let mut i = 0;
            while i < k {
                let g = a.geo(i);
                inside = inside || (na >= g.content_start && na + nlen <= g.content_end);
                i += 1;
            }
            if n_grants > k {
                let g = geo::<A, S>(unsafe { GRANTS[k] });
                inside = inside || (na >= g.content_start && na + nlen <= g.content_end);
            }
            kani::assert(inside, "C01.realloc.inside_owned_memory");
            // C02: prefix preserved
            if keep > 0 {
                kani::assert(unsafe { *(np.as_ptr() as *mut u8).add(j) } == pv, "C02.realloc.prefix_preserved");
            }
            // C02: never writes outside the new block (headers aside)
            let w_in_new = wa >= na && wa < na + nlen;
            kani::assert(w_in_new || in_any_header(&a, wa) || unsafe { *wp } == w_old, "C02.realloc.writes_only_inside_new_block");
            // C01: the new block shares no byte with any other live block: a byte of it was free, or belonged to the old block
            kani::assert(!w_in_new || w_free || w_in_old || !w_alloc, "C01.realloc.new_block_disjoint_from_other_live_blocks");
            // C02 zeroing
            if op == Op::GrowZeroed && wa >= na + old.size() && wa < na + new.size() {
                kani::assert(unsafe { *wp } == 0, "C02.grow_zeroed.new_tail_is_zero");
            }
            // the new block is allocated afterwards (when it lies in pre-existing chunks)
            if n_grants == k && new.size() > 0 {
                kani::assert(a.is_allocated(na) && a.is_allocated(na + new.size() - 1), "C01.realloc.new_block_is_allocated");
            }
            // C13: same address when the newest allocation grows upwards with room and fitting alignment
            if growing && S::UP && was_last && al(ba, new.align()) && ba + new.size() <= a.geo(ci).content_end {
                kani::assert(na == ba, "C13.grow.in_place_same_address");
            }
            // C13: shrinking any block but the newest reclaims nothing
            if !growing && !was_last && al(ba, new.align()) {
                kani::assert(na == ba && a.allocated_bytes() == bytes, "C13.shrink.other_block_reclaims_nothing");
            }
            if matches!(op, Op::WithoutShrinkShrink) || (!growing && !S::SHRINKS) {
                kani::assert(n_grants > k || a.allocated_bytes() >= bytes, "C13.shrink.opt_out_never_decreases_allocated");
            }
        }
        Err(_) => {
            kani::assert(may_fail || budget == 0, "C07.realloc.err_only_when_base_allocator_refuses");
            // the newest block of an upward arena grows in place whenever the chunk has room for the NEW size counted
            // from the block's start: such a request needs no memory from anywhere else and therefore never fails
            kani::assert(!(growing && S::UP && was_last && al(ba, new.align()) && ba + new.size() <= a.geo(ci).content_end), "C13.grow.in_place_growth_with_room_never_fails");
            kani::assert(n_grants == k, "C07.realloc.err_leaks_no_chunk");
            kani::assert(in_any_header(&a, wa) || unsafe { *wp } == w_old, "C07.realloc.err_writes_nothing");
        }
    }
    // everything that was allocated and is not part of the old block stays allocated (C01: other live blocks stay valid)
    kani::assert(!w_alloc || w_in_old || n_grants > k || a.is_allocated(wa), "C01.realloc.other_blocks_stay_allocated");
    if n_grants == k {
        kani::assert(a.wf(), "C10.realloc.wf");
        let after = a.snaps();
        let mut i = 0;
        while i < ci {
            kani::assert(after[i] == before[i], "C10.realloc.earlier_chunks_untouched");
            i += 1;
        }
    }
    kani::cover!(r.is_ok() && (r.unwrap().as_ptr() as *mut u8 as usize) == ba && new.size() != old.size(), "in-place");
    kani::cover!(r.is_ok() && (r.unwrap().as_ptr() as *mut u8 as usize) != ba, "moved");
    kani::cover!(was_last, "newest-block");
    kani::cover!(!was_last, "other-block");
    kani::cover!(!al(ba, new.align()), "alignment-does-not-fit");
}

/// `Allocator::allocate_zeroed` (default method of src/alloc.rs as used by BumpScope): all zero even when
/// the memory was used before (fresh CBMC memory is nondeterministic); and `allocate`'s slice length.
pub(crate) fn ob_allocate_zeroed<A, S>(k: usize, hint: usize, max_size: usize)
where
    A: crate::BaseAllocator<S::GuaranteedAllocated> + Default,
    S: BumpAllocatorSettings,
{
    let mut a = Arena::<A, S>::build(k, hint);
    a.havoc();
    let layout = any_layout(max_size, 5);
    let (wp, wa) = any_byte_in_grants(k);
    let w_old = unsafe { *wp };
    unsafe { BUDGET = 0 };
    let scope: &BumpScope<'_, A, S> = unsafe { transmute_ref(&a.bump) };
    let r = scope.allocate_zeroed(layout);
    unsafe { BUDGET = usize::MAX };
    if let Ok(np) = r {
        let na = np.as_ptr() as *mut u8 as usize;
        kani::assert(np.len() >= layout.size() && al(na, layout.align()), "C01.allocate_zeroed.size_and_alignment");
        let inside = wa >= na && wa < na + layout.size();
        if inside {
            kani::assert(unsafe { *wp } == 0, "C02.allocate_zeroed.reads_all_zero");
        } else {
            kani::assert(in_any_header(&a, wa) || unsafe { *wp } == w_old, "C02.allocate_zeroed.writes_only_inside_block");
        }
        kani::cover!(inside && w_old != 0, "overwrote-used-memory");
    }
    kani::assert(a.wf(), "C10.allocate_zeroed.wf");
    kani::cover!(r.is_ok(), "ok");
    kani::cover!(r.is_err(), "err");
}

type SUp1 = St<1, true, true, true, true>;
type SDn1 = St<1, false, true, true, true>;
type SUp8 = St<8, true, true, true, true>;
type SDn8 = St<8, false, true, true, true>;
type SUp4NoSh = St<4, true, true, true, false>;
type SDn4NoSh = St<4, false, true, true, false>;

// ---- quick tier: one chunk of 48 bytes (16 content bytes), base allocator refuses further chunks (budget 0),
//      old size <= 8, new size <= 12, alignments old <= 16 / new <= 32, everything else symbolic.
inst!(grow_up1_k1, unwind 3, ob_realloc, LogAlloc, SUp1, 1, 64, Op::Grow, 8, 12, false, 0);
inst!(grow_dn1_k1, unwind 3, ob_realloc, LogAlloc, SDn1, 1, 64, Op::Grow, 8, 12, false, 0);
inst!(grow_dn8_k1, unwind 3, ob_realloc, LogAlloc, SDn8, 1, 64, Op::Grow, 8, 12, false, 0);
inst!(grow_up8_k1, unwind 3, ob_realloc, LogAlloc, SUp8, 1, 64, Op::Grow, 8, 12, false, 0);
inst!(shrink_up8_k1, unwind 3, ob_realloc, LogAlloc, SUp8, 1, 64, Op::Shrink, 12, 12, false, 0);
inst!(grow_zeroed_up1_k1, unwind 3, ob_realloc, LogAlloc, SUp1, 1, 64, Op::GrowZeroed, 8, 12, false, 0);
inst!(grow_zeroed_dn8_k1, unwind 3, ob_realloc, LogAlloc, SDn8, 1, 64, Op::GrowZeroed, 8, 12, false, 0);
inst!(shrink_up1_k1, unwind 3, ob_realloc, LogAlloc, SUp1, 1, 64, Op::Shrink, 12, 12, false, 0);
inst!(shrink_dn1_k1, unwind 3, ob_realloc, LogAlloc, SDn1, 1, 64, Op::Shrink, 12, 12, false, 0);
inst!(shrink_dn8_k1, unwind 3, ob_realloc, LogAlloc, SDn8, 1, 64, Op::Shrink, 12, 12, false, 0);
inst!(shrink_up4_noshrink_k1, unwind 3, ob_realloc, LogAlloc, SUp4NoSh, 1, 64, Op::Shrink, 12, 12, false, 0);
inst!(shrink_dn4_noshrink_k1, unwind 3, ob_realloc, LogAlloc, SDn4NoSh, 1, 64, Op::Shrink, 12, 12, false, 0);
inst!(without_shrink_up1_k1, unwind 3, ob_realloc, LogAlloc, SUp1, 1, 64, Op::WithoutShrinkShrink, 12, 12, false, 0);
inst!(without_shrink_dn1_k1, unwind 3, ob_realloc, LogAlloc, SDn1, 1, 64, Op::WithoutShrinkShrink, 12, 12, false, 0);
inst!(without_dealloc_grow_dn1_k1, unwind 3, ob_realloc, LogAlloc, SDn1, 1, 64, Op::WithoutDeallocGrow, 8, 12, false, 0);
inst!(without_dealloc_shrink_up8_k1, unwind 3, ob_realloc, LogAlloc, SUp8, 1, 64, Op::WithoutDeallocShrink, 12, 12, false, 0);

inst!(allocate_zeroed_up1, unwind 4, ob_allocate_zeroed, LogAlloc, SUp1, 2, 64, 40);
inst!(allocate_zeroed_dn8, unwind 4, ob_allocate_zeroed, LogAlloc<u64>, SDn8, 2, 64, 40);

// ---- thorough tier: two chunks (48 + 112 bytes) so that the slow path can move the block to a later chunk,
//      bigger blocks, stateful base allocator
inst!(grow_up1_k2, unwind 4, ob_realloc, LogAlloc, SUp1, 2, 64, Op::Grow, 16, 24, false, 0);
inst!(grow_dn1_k2, unwind 4, ob_realloc, LogAlloc, SDn1, 2, 64, Op::Grow, 16, 24, false, 0);
inst!(grow_up8_k2, unwind 4, ob_realloc, LogAlloc<u64>, SUp8, 2, 64, Op::Grow, 16, 24, false, 0);
inst!(grow_dn8_k2, unwind 4, ob_realloc, LogAlloc<u64>, SDn8, 2, 64, Op::Grow, 16, 24, false, 0);
inst!(grow_zeroed_up1_k2, unwind 4, ob_realloc, LogAlloc, SUp1, 2, 64, Op::GrowZeroed, 12, 20, false, 0);
// not registered (no verdict within 40 min / 14 GB on the unchanged tree, build record 10.3)
inst!(exp_grow_zeroed_dn8_k2, unwind 4, ob_realloc, LogAlloc, SDn8, 2, 64, Op::GrowZeroed, 12, 20, false, 0);
inst!(shrink_up1_k2, unwind 4, ob_realloc, LogAlloc, SUp1, 2, 64, Op::Shrink, 24, 24, false, 0);
inst!(shrink_dn1_k2, unwind 4, ob_realloc, LogAlloc, SDn1, 2, 64, Op::Shrink, 24, 24, false, 0);
// not registered (same reason)
inst!(exp_shrink_dn8_k2, unwind 4, ob_realloc, LogAlloc<u64>, SDn8, 2, 64, Op::Shrink, 24, 24, false, 0);
inst!(without_shrink_up1_k2, unwind 4, ob_realloc, LogAlloc, SUp1, 2, 64, Op::WithoutShrinkShrink, 24, 24, false, 0);
inst!(without_shrink_dn1_k2, unwind 4, ob_realloc, LogAlloc, SDn1, 2, 64, Op::WithoutShrinkShrink, 24, 24, false, 0);
inst!(grow_up1_k1_128, unwind 3, ob_realloc, LogAlloc, SUp1, 1, 128, Op::Grow, 16, 32, false, 0);
inst!(shrink_dn1_k1_128, unwind 3, ob_realloc, LogAlloc, SDn1, 1, 128, Op::Shrink, 32, 32, false, 0);

// ---- thorough tier: the remaining MIN_ALIGN x direction instantiations of grow / shrink (one 48-byte chunk)
macro_rules! rmatrix {
    ($($name:ident: $ma:literal, $up:literal, $op:expr, $old:literal, $new:literal);*) => {
        $(
            #[kani::proof]
            #[kani::unwind(3)]
            pub(crate) fn $name() {
                ob_realloc::<LogAlloc, St<$ma, $up, true, true, true>>(1, 64, $op, $old, $new, false, 0);
            }
        )*
    };
}
rmatrix!(
    grow_up2_t: 2, true, Op::Grow, 8, 12;
    grow_up4_t: 4, true, Op::Grow, 8, 12;
    grow_up16_t: 16, true, Op::Grow, 8, 12;
    grow_dn2_t: 2, false, Op::Grow, 8, 12;
    grow_dn4_t: 4, false, Op::Grow, 8, 12;
    grow_dn16_t: 16, false, Op::Grow, 8, 12;
    shrink_up2_t: 2, true, Op::Shrink, 12, 12;
    shrink_up4_t: 4, true, Op::Shrink, 12, 12;
    shrink_up16_t: 16, true, Op::Shrink, 12, 12;
    shrink_dn2_t: 2, false, Op::Shrink, 12, 12;
    shrink_dn4_t: 4, false, Op::Shrink, 12, 12;
    shrink_dn16_t: 16, false, Op::Shrink, 12, 12;
    grow_zeroed_up8_t: 8, true, Op::GrowZeroed, 8, 12;
    grow_zeroed_dn2_t: 2, false, Op::GrowZeroed, 8, 12
);
