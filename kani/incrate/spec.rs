//! Contract vocabulary for the Kani side (bit-precise, division-free).
//! `is_up` / `is_down` CHARACTERISE the aligned value (least multiple >= x / greatest
//! multiple <= x) instead of computing it, so they are independent of how the code computes it.
use core::alloc::Layout;

use crate::bumping::{BumpProps, BumpUp, MIN_CHUNK_ALIGN};

#[inline(always)]
pub(crate) fn is_p2(a: usize) -> bool {
    a != 0 && a & (a - 1) == 0
}

#[inline(always)]
pub(crate) fn al(x: usize, a: usize) -> bool {
    x & (a - 1) == 0
}

/// r is the least multiple of a that is >= x   (a: power of two)
#[inline(always)]
pub(crate) fn is_up(x: u128, a: u128, r: u128) -> bool {
    r >= x && r - x < a && r & (a - 1) == 0
}

/// r is the greatest multiple of a that is <= x
#[inline(always)]
pub(crate) fn is_down(x: u128, a: u128, r: u128) -> bool {
    r <= x && x - r < a && r & (a - 1) == 0
}

/// least multiple of a >= x, computed differently from the code (add the complement of the remainder)
#[inline(always)]
pub(crate) fn up128(x: u128, a: u128) -> u128 {
    x + ((a - (x & (a - 1))) & (a - 1))
}

#[inline(always)]
pub(crate) fn down128(x: u128, a: u128) -> u128 {
    x - (x & (a - 1))
}

pub(crate) struct Props {
    pub start: usize,
    pub end: usize,
    pub min_align: usize,
    pub size: usize,
    pub align: usize,
    pub align_is_const: bool,
    pub size_is_const: bool,
    pub size_is_multiple_of_align: bool,
}

impl Props {
    pub(crate) fn bump_props(&self) -> BumpProps {
        BumpProps {
            start: self.start,
            end: self.end,
            min_align: self.min_align,
            layout: Layout::from_size_align(self.size, self.align).unwrap(),
            align_is_const: self.align_is_const,
            size_is_const: self.size_is_const,
            size_is_multiple_of_align: self.size_is_multiple_of_align,
        }
    }

    /// Same predicate as `props_valid` of /verif/verus/modheads/bumping.rs.
    pub(crate) fn valid(&self, up: bool) -> bool {
        let p = self;
        if !(is_p2(p.align) && Layout::from_size_align(p.size, p.align).is_ok()) {
            return false;
        }
        if p.start == 0 || p.end == 0 {
            return false;
        }
        if !(is_p2(p.min_align) && p.min_align <= 16) {
            return false;
        }
        if p.size_is_multiple_of_align && !al(p.size, p.align) {
            return false;
        }
        if p.start > p.end {
            p.start - p.end == 16 && al(p.start, 16) && al(p.end, 16)
        } else {
            p.end - p.start <= isize::MAX as usize
                && if up {
                    al(p.start, p.min_align) && al(p.end, 16)
                } else {
                    al(p.start, 16) && al(p.end, p.min_align)
                }
        }
    }

    pub(crate) fn any() -> Self {
        let align_log: u8 = kani::any();
        kani::assume(align_log < 64);
        let min_align_log: u8 = kani::any();
        kani::assume(min_align_log <= 4);
        Props {
            start: kani::any(),
            end: kani::any(),
            min_align: 1usize << min_align_log,
            size: kani::any(),
            align: 1usize << align_log,
            align_is_const: kani::any(),
            size_is_const: kani::any(),
            size_is_multiple_of_align: kani::any(),
        }
    }
}

/// bump_up_post of the Verus contract: Some((s, np)) with s = up(start, align),
/// np = up(s + size, min_align) iff s + size <= end, else None.
pub(crate) fn post_bump_up(p: &Props, r: &Option<BumpUp>) -> bool {
    let s = up128(p.start as u128, p.align as u128);
    let fits = s + p.size as u128 <= p.end as u128;
    match r {
        Some(BumpUp { new_pos, ptr }) => {
            fits && is_up(p.start as u128, p.align as u128, *ptr as u128)
                && is_up(*ptr as u128 + p.size as u128, p.min_align as u128, *new_pos as u128)
                && *new_pos <= p.end
        }
        None => !fits,
    }
}

pub(crate) fn post_bump_down(p: &Props, r: &Option<usize>) -> bool {
    let big = if p.align > p.min_align { p.align } else { p.min_align } as u128;
    let fits = p.end >= p.size && down128((p.end - p.size) as u128, big) >= p.start as u128;
    match r {
        Some(ptr) => {
            fits && is_down((p.end - p.size) as u128, big, *ptr as u128) && *ptr >= p.start && *ptr != 0
        }
        None => !fits,
    }
}

pub(crate) fn post_prepare_up(p: &Props, r: &Option<core::ops::Range<usize>>) -> bool {
    let s = up128(p.start as u128, p.align as u128);
    let fits = s + p.size as u128 <= p.end as u128;
    match r {
        Some(range) => {
            fits && is_up(p.start as u128, p.align as u128, range.start as u128)
                && is_down(p.end as u128, p.align as u128, range.end as u128)
                && range.end - range.start >= p.size
        }
        None => !fits,
    }
}

pub(crate) fn post_prepare_down(p: &Props, r: &Option<core::ops::Range<usize>>) -> bool {
    let e = down128(p.end as u128, p.align as u128);
    let fits = e >= p.size as u128 && e - p.size as u128 >= p.start as u128;
    match r {
        Some(range) => {
            fits && is_up(p.start as u128, p.align as u128, range.start as u128)
                && is_down(p.end as u128, p.align as u128, range.end as u128)
                && range.end - range.start >= p.size
        }
        None => !fits,
    }
}
