//! Layer II: the growable vector `BumpVec` over a real (symbolic-state) arena: growth goes through
//! `allocator_impl::grow`, capacity promises, failed reservations (C07/C08/C13/C01).
use core::{alloc::Layout, ptr::NonNull};

use super::{h_arena::*, spec::*, state::*};
use crate::{
    BumpScope, BumpVec,
    alloc::AllocError,
    polyfill::transmute_ref,
    settings::BumpAllocatorSettings,
};

pub(crate) fn ob_bump_vec<A, S>(hint: usize)
where
    A: crate::BaseAllocator<S::GuaranteedAllocated> + Default,
    S: BumpAllocatorSettings,
{
    ob_bump_vec_r::<A, S>(hint, false);
}

/// only reservations whose byte size overflows (the arithmetic error path; cheap for CBMC)
pub(crate) fn ob_bump_vec_overflow<A, S>(hint: usize)
where
    A: crate::BaseAllocator<S::GuaranteedAllocated> + Default,
    S: BumpAllocatorSettings,
{
    ob_bump_vec_r::<A, S>(hint, true);
}

pub(crate) fn ob_bump_vec_r<A, S>(hint: usize, overflow_only: bool)
where
    A: crate::BaseAllocator<S::GuaranteedAllocated> + Default,
    S: BumpAllocatorSettings,
{
    ob_bump_vec_rs::<A, S>(hint, overflow_only, true);
}

/// `fresh`: the arena is fresh (nothing allocated) instead of an arbitrary state - a much smaller obligation that
/// still exercises BumpVec's own growth arithmetic (where a size overflow has to become an error).
pub(crate) fn ob_bump_vec_fresh_overflow<A, S>(hint: usize)
where
    A: crate::BaseAllocator<S::GuaranteedAllocated> + Default,
    S: BumpAllocatorSettings,
{
    ob_bump_vec_rs::<A, S>(hint, true, false);
}

pub(crate) fn ob_bump_vec_rs<A, S>(hint: usize, overflow_only: bool, arbitrary_state: bool)
where
    A: crate::BaseAllocator<S::GuaranteedAllocated> + Default,
    S: BumpAllocatorSettings,
{
    let mut a = Arena::<A, S>::build(1, hint);
    if arbitrary_state {
        a.havoc();
    }
    let bytes0 = a.allocated_bytes();
    let pos0 = a.snaps()[0].pos;
    unsafe { BUDGET = 0 };
    let raw_view: *const crate::raw_bump::RawBump<A, S> = &a.bump;
    let scope: &BumpScope<'_, A, S> = unsafe { transmute_ref(&a.bump) };
    let vals = [kani::any::<u16>(), kani::any::<u16>(), kani::any::<u16>()];
    // concrete number of pushes (symbolic values, symbolic arena state): keeps the growth arithmetic concrete for CBMC
    let n: usize = 2;
    let mut v = BumpVec::<u16, _>::new_in(scope);
    let mut m = [0u16; 4];
    let mut mlen = 0usize;
    let mut i = 0;
    while i < n {
        if v.try_push(vals[i]).is_ok() {
            m[mlen] = vals[i];
            mlen += 1;
        }
        i += 1;
    }
    kani::assert(v.len() == mlen && v.capacity() >= v.len(), "C08.bump_vec.len_and_capacity");
    let j: usize = kani::any();
    kani::assume(j < mlen);
    if mlen > 0 {
        kani::assert(v[j] == m[j], "C08.bump_vec.same_contents_as_vec");
    }
    // a reservation over the FULL usize range: overflow is an error (never a panic or a wrap), a failed
    // reservation leaves length, contents, capacity and buffer address as they were
    let add: usize = kani::any();
    if overflow_only {
        kani::assume(add > (isize::MAX as usize) / 2);
    } else {
        kani::assume(add <= 6);
    }
    let (cap1, addr1, len1) = (v.capacity(), v.as_ptr() as usize, v.len());
    let r = v.try_reserve(add);
    if add > (isize::MAX as usize) / 2 {
        kani::assert(r.is_err(), "C07.bump_vec.overflowing_reserve_is_an_error");
    }
    match r {
        Err(_) => {
            kani::assert(v.len() == len1 && v.capacity() == cap1 && (cap1 == 0 || v.as_ptr() as usize == addr1), "C07.bump_vec.failed_reserve_changes_nothing");
            if mlen > 0 {
                kani::assert(v[j] == m[j], "C07.bump_vec.failed_reserve_keeps_contents");
            }
        }
        Ok(()) => {
            kani::assert(v.capacity() >= len1 + add, "C08.bump_vec.reserve_promise");
            if mlen > 0 {
                kani::assert(v[j] == m[j], "C02.bump_vec.grow_keeps_contents");
            }
            // the promise holds: one more push (if promised) does not move the buffer
            if add >= 1 {
                let addr2 = v.as_ptr() as usize;
                kani::assert(v.try_push(7).is_ok(), "C08.bump_vec.push_within_promise_succeeds");
                kani::assert(v.as_ptr() as usize == addr2, "C08.bump_vec.no_reallocation_while_promise_suffices");
            }
        }
    }
    let reserve_ok = r.is_ok();
    // the buffer is a valid live block
    if v.capacity() > 0 {
        let (ba, bl) = (v.as_ptr() as usize, v.capacity() * 2);
        kani::assert(al(ba, 2) && a_is_allocated(raw_view, &a, ba) && a_is_allocated(raw_view, &a, ba + bl - 1), "C01.bump_vec.buffer_is_allocated");
    }
    drop(v);
    unsafe { BUDGET = usize::MAX };
    kani::assert(a.wf(), "C10.bump_vec.wf");
    // dropping the vector reclaims at most its own buffer: the position never goes behind the entry position
    if S::UP {
        kani::assert(a.snaps()[0].pos >= pos0, "C13.bump_vec.drop_reclaims_only_its_own_buffer");
    } else {
        kani::assert(a.snaps()[0].pos <= pos0, "C13.bump_vec.drop_reclaims_only_its_own_buffer");
    }
    kani::assert(a.allocated_bytes() >= bytes0, "C13.bump_vec.drop_reclaims_only_its_own_buffer_bytes");
    kani::cover!(overflow_only || (reserve_ok && add >= 1 && n >= 1), "reserve-ok");
    kani::cover!(overflow_only || (!reserve_ok && n >= 1), "reserve-refused");
    kani::cover!(!overflow_only || (add > (isize::MAX as usize) / 2 && mlen > 0), "reserve-overflow-on-a-vector-with-a-buffer");
}

/// helper: `is_allocated` through the raw view (the arena is mutably borrowed by the vector's allocator reference only logically)
fn a_is_allocated<A, S>(_raw: *const crate::raw_bump::RawBump<A, S>, a: &Arena<A, S>, addr: usize) -> bool
where
    A: crate::BaseAllocator<S::GuaranteedAllocated> + Default,
    S: BumpAllocatorSettings,
{
    a.is_allocated(addr)
}

type SUp1 = St<1, true, true, true, true>;
type SDn1 = St<1, false, true, true, true>;
type SUp8 = St<8, true, true, true, true>;
type SDn8 = St<8, false, true, true, true>;

#[kani::proof]
#[kani::unwind(5)]
pub(crate) fn bump_vec_up1() {
    ob_bump_vec::<LogAlloc, SUp1>(64);
}
#[kani::proof]
#[kani::unwind(5)]
pub(crate) fn bump_vec_dn8() {
    ob_bump_vec::<LogAlloc, SDn8>(64);
}
#[kani::proof]
#[kani::unwind(5)]
pub(crate) fn bump_vec_overflow_up1() {
    ob_bump_vec_overflow::<LogAlloc, SUp1>(64);
}
#[kani::proof]
#[kani::unwind(5)]
pub(crate) fn bump_vec_overflow_dn8() {
    ob_bump_vec_overflow::<LogAlloc, SDn8>(64);
}
#[kani::proof]
#[kani::unwind(5)]
pub(crate) fn bump_vec_fresh_overflow_up1() {
    ob_bump_vec_fresh_overflow::<LogAlloc, SUp1>(64);
}
#[kani::proof]
#[kani::unwind(5)]
pub(crate) fn bump_vec_fresh_overflow_dn8() {
    ob_bump_vec_fresh_overflow::<LogAlloc, SDn8>(64);
}
#[kani::proof]
#[kani::unwind(5)]
pub(crate) fn bump_vec_up8_128() {
    ob_bump_vec::<LogAlloc, SUp8>(128);
}
#[kani::proof]
#[kani::unwind(5)]
pub(crate) fn bump_vec_dn1_128() {
    ob_bump_vec::<LogAlloc, SDn1>(128);
}
