//! Layer II: per-operation contracts of the owned-slice collections over a FIXED buffer
//! (`BumpBox<[T]>`, `FixedBumpVec<T>`, `BumpBox<str>`), from an arbitrary symbolic collection
//! state (length, element values) and symbolic arguments:
//!   C08  refinement against `std::vec::Vec` (same return value, same contents, same length)
//!   C16  split / merge partition exactly (addresses adjacent, concatenation is the original)
//!   C06  every element dropped exactly once (drop-counting element type)
//!   C09  string operations against `std::string::String`, contents stay valid UTF-8
//! Bounds (=> strength B): len <= 4, capacity 5 (strings: <= 6 bytes).
use core::{mem::MaybeUninit, ptr::NonNull};
use std::{string::String, vec::Vec};

use crate::{BumpBox, FixedBumpVec};

pub(crate) const CAP: usize = 5;
pub(crate) const CAP6: usize = 6;
pub(crate) const MAXLEN: usize = 4;

/// symbolic contents: `len` symbolic values
pub(crate) struct Sym {
    pub vals: [u8; CAP],
    /// six symbolic values (for the concrete-length split_off obligations)
    pub vals6: [u8; CAP6],
    pub len: usize,
}

impl Sym {
    pub(crate) fn any() -> Self {
        let len: usize = kani::any();
        kani::assume(len <= MAXLEN);
        Sym { vals: kani::any(), vals6: kani::any(), len }
    }
    pub(crate) fn with_len(len: usize) -> Self {
        Sym { vals: kani::any(), vals6: kani::any(), len }
    }
    pub(crate) fn oracle(&self) -> Vec<u8> {
        let mut v = Vec::with_capacity(CAP + 1);
        let mut i = 0;
        while i < self.len {
            v.push(self.vals[i]);
            i += 1;
        }
        v
    }
}

pub(crate) fn fill(buf: &mut [MaybeUninit<u8>; CAP], s: &Sym) {
    let mut i = 0;
    while i < s.len {
        buf[i] = MaybeUninit::new(s.vals[i]);
        i += 1;
    }
}

pub(crate) fn boxed<'a>(buf: &'a mut [MaybeUninit<u8>; CAP], s: &Sym) -> BumpBox<'a, [u8]> {
    fill(buf, s);
    unsafe { BumpBox::from_raw(NonNull::slice_from_raw_parts(NonNull::new_unchecked(buf.as_mut_ptr().cast::<u8>()), s.len)) }
}

pub(crate) fn fixed<'a>(buf: &'a mut [MaybeUninit<u8>; CAP], s: &Sym) -> FixedBumpVec<'a, u8> {
    fill(buf, s);
    let b: BumpBox<'a, [MaybeUninit<u8>]> =
        unsafe { BumpBox::from_raw(NonNull::slice_from_raw_parts(NonNull::new_unchecked(buf.as_mut_ptr()), CAP)) };
    let mut v = FixedBumpVec::from_uninit(b);
    unsafe { v.set_len(s.len) };
    v
}

pub(crate) fn same(a: &[u8], b: &[u8]) -> bool {
    if a.len() != b.len() {
        return false;
    }
    let mut i = 0;
    let mut ok = true;
    while i < a.len() {
        ok = ok && a[i] == b[i];
        i += 1;
    }
    ok
}

// ------------------------------------------------------------------------------------------ C08

#[kani::proof]
#[kani::unwind(7)]
pub(crate) fn vec_remove_pop_truncate() {
    let s = Sym::any();
    let mut buf = [MaybeUninit::uninit(); CAP];
    let mut b = boxed(&mut buf, &s);
    let mut m = s.oracle();
    let op: u8 = kani::any();
    kani::assume(op < 5);
    let idx: usize = kani::any();
    match op {
        0 => {
            kani::assume(idx < s.len);
            kani::assert(b.remove(idx) == m.remove(idx), "C08.box_slice.remove.returns_same");
        }
        1 => {
            kani::assume(idx < s.len);
            kani::assert(b.swap_remove(idx) == m.swap_remove(idx), "C08.box_slice.swap_remove.returns_same");
        }
        2 => {
            kani::assert(b.pop() == m.pop(), "C08.box_slice.pop.returns_same");
        }
        3 => {
            kani::assume(idx <= 6);
            b.truncate(idx);
            m.truncate(idx);
        }
        _ => {
            b.clear();
            m.clear();
        }
    }
    kani::assert(b.len() == m.len(), "C08.box_slice.same_length");
    kani::assert(same(b.as_slice(), m.as_slice()), "C08.box_slice.same_contents");
    kani::cover!(op == 0 && idx + 1 < s.len, "remove-interior");
    kani::cover!(op == 3 && idx > s.len, "truncate-beyond-len");
    core::mem::forget(b);
}

#[kani::proof]
#[kani::unwind(7)]
pub(crate) fn vec_retain_dedup() {
    let s = Sym::any();
    let mut buf = [MaybeUninit::uninit(); CAP];
    let mut b = boxed(&mut buf, &s);
    let mut m = s.oracle();
    let which: bool = kani::any();
    let t: u8 = kani::any();
    if which {
        b.retain(|x| *x & 1 == t & 1);
        m.retain(|x| *x & 1 == t & 1);
    } else {
        b.dedup();
        m.dedup();
    }
    kani::assert(same(b.as_slice(), m.as_slice()), "C08.box_slice.retain_dedup.same_contents");
    kani::cover!(which && b.len() < s.len && b.len() > 0, "retain-removed-some");
    kani::cover!(!which && b.len() < s.len, "dedup-removed-some");
    core::mem::forget(b);
}

#[kani::proof]
#[kani::unwind(7)]
pub(crate) fn vec_drain() {
    let s = Sym::any();
    let mut buf = [MaybeUninit::uninit(); CAP];
    let mut b = boxed(&mut buf, &s);
    let mut m = s.oracle();
    let (lo, hi): (usize, usize) = (kani::any(), kani::any());
    kani::assume(lo <= hi && hi <= s.len);
    let mut d = b.drain(lo..hi);
    let mut e = m.drain(lo..hi);
    // iterate from both ends
    let front: bool = kani::any();
    let mut i = 0;
    while i < MAXLEN {
        let (x, y) = if front { (d.next(), e.next()) } else { (d.next_back(), e.next_back()) };
        kani::assert(x == y, "C08.box_slice.drain.yields_same");
        i += 1;
    }
    drop(d);
    drop(e);
    kani::assert(same(b.as_slice(), m.as_slice()), "C08.box_slice.drain.same_rest");
    kani::cover!(lo > 0 && hi < s.len && lo < hi, "interior-range");
    core::mem::forget(b);
}

#[kani::proof]
#[kani::unwind(7)]
pub(crate) fn fixed_vec_push_insert_extend() {
    let s = Sym::any();
    let mut buf = [MaybeUninit::uninit(); CAP];
    let mut v = fixed(&mut buf, &s);
    let mut m = s.oracle();
    let addr0 = v.as_ptr() as usize;
    kani::assert(v.capacity() == CAP && v.len() == s.len && v.capacity() >= v.len(), "C08.fixed_vec.capacity_at_least_len");
    let op: u8 = kani::any();
    kani::assume(op < 4);
    let x: u8 = kani::any();
    let idx: usize = kani::any();
    match op {
        0 => {
            let r = v.try_push(x);
            kani::assert(r.is_ok(), "C08.fixed_vec.try_push_succeeds_when_not_full");
            m.push(x);
        }
        1 => {
            kani::assume(idx <= s.len);
            kani::assert(v.try_insert(idx, x).is_ok(), "C08.fixed_vec.try_insert_succeeds_when_not_full");
            m.insert(idx, x);
        }
        2 => {
            let extra = [x, x ^ 1];
            let n: usize = kani::any();
            kani::assume(n <= 2 && s.len + n <= CAP);
            kani::assert(v.try_extend_from_slice_copy(&extra[..n]).is_ok(), "C08.fixed_vec.try_extend_succeeds_when_it_fits");
            m.extend_from_slice(&extra[..n]);
        }
        _ => {
            kani::assume(idx <= CAP);
            kani::assert(v.try_resize(idx, x).is_ok(), "C08.fixed_vec.try_resize_succeeds_within_capacity");
            m.resize(idx, x);
        }
    }
    kani::assert(same(v.as_slice(), m.as_slice()), "C08.fixed_vec.same_contents");
    kani::assert(v.as_ptr() as usize == addr0 && v.capacity() == CAP, "C08.fixed_vec.never_reallocates");
    kani::cover!(op == 1 && idx < s.len, "insert-interior");
    kani::cover!(op == 3 && idx < s.len, "resize-shrinks");
    core::mem::forget(v);
}

/// a full fixed vector refuses every growing operation and keeps its contents (C07/C08)
#[kani::proof]
#[kani::unwind(7)]
pub(crate) fn fixed_vec_full_fails() {
    let mut s = Sym::any();
    let mut buf = [MaybeUninit::uninit(); CAP];
    // make it full: capacity == len by splitting the spare capacity off is not available; use a CAP-long state
    s.len = MAXLEN;
    let mut v = fixed(&mut buf, &s);
    let x: u8 = kani::any();
    kani::assert(v.try_push(x).is_ok(), "C08.fixed_vec.push_until_full");
    kani::assert(v.is_full() && v.len() == CAP, "C08.fixed_vec.is_full");
    let m: Vec<u8> = v.as_slice().to_vec();
    let op: u8 = kani::any();
    kani::assume(op < 4);
    let r = match op {
        0 => v.try_push(x).is_err(),
        1 => v.try_insert(2, x).is_err(),
        2 => v.try_extend_from_slice_copy(&[x]).is_err(),
        _ => v.try_resize(CAP + 1, x).is_err(),
    };
    kani::assert(r, "C07.fixed_vec.full_reports_error");
    kani::assert(same(v.as_slice(), m.as_slice()) && v.len() == CAP, "C07.fixed_vec.failed_op_keeps_length_and_contents");
    core::mem::forget(v);
}

/// zero-sized elements report unlimited capacity (C08)
#[kani::proof]
#[kani::unwind(4)]
pub(crate) fn zst_capacity_unlimited() {
    let mut v: FixedBumpVec<'static, ()> = FixedBumpVec::new();
    kani::assert(v.capacity() == usize::MAX, "C08.zst.capacity_unlimited");
    kani::assert(v.try_push(()).is_ok() && v.try_push(()).is_ok() && v.len() == 2, "C08.zst.push");
    kani::assert(v.pop() == Some(()) && v.len() == 1, "C08.zst.pop");
}

// ------------------------------------------------------------------------------------------ C16

pub(crate) fn split_off_partitions(len: usize, interior: bool) {
    let s = Sym::with_len(len);
    let mut buf = [MaybeUninit::uninit(); CAP];
    let base = buf.as_ptr() as usize;
    let mut b = boxed(&mut buf, &s);
    let (lo, hi): (usize, usize) = (kani::any(), kani::any());
    kani::assume(lo <= hi && hi <= s.len);
    // prefix / suffix / full / empty ranges are pointer surgery; interior ranges rotate elements (much more expensive for CBMC)
    kani::assume(interior == (lo > 0 && hi < s.len && lo < hi));
    let part = b.split_off(lo..hi);
    // lengths add up; the split-off part holds exactly the range, the rest holds the other elements in order
    kani::assert(part.len() == hi - lo && b.len() == s.len - (hi - lo), "C16.split_off.lengths_add_up");
    let mut i = 0;
    while i < MAXLEN {
        if i < part.len() {
            kani::assert(part[i] == s.vals[lo + i], "C16.split_off.part_is_the_range_in_order");
        }
        if i < b.len() {
            let src = if i < lo { i } else { i + (hi - lo) };
            kani::assert(b[i] == s.vals[src], "C16.split_off.rest_keeps_order");
        }
        i += 1;
    }
    // the two parts are disjoint, adjacent and inside the original range
    let (pa, pe) = (part.as_ptr() as usize, part.as_ptr() as usize + part.len());
    let (ra, re) = (b.as_ptr() as usize, b.as_ptr() as usize + b.len());
    if part.len() > 0 && b.len() > 0 {
        kani::assert(pe <= ra || re <= pa, "C16.split_off.parts_disjoint");
        kani::assert(pe == ra || re == pa, "C16.split_off.parts_adjacent");
    }
    kani::assert((part.len() == 0 || (pa >= base && pe <= base + s.len)) && (b.len() == 0 || (ra >= base && re <= base + s.len)), "C16.split_off.parts_inside_original");
    // merge of adjacent parts restores the whole
    if part.len() > 0 && b.len() > 0 {
        let whole = if pe == ra { part.merge(b) } else { b.merge(part) };
        kani::assert(whole.len() == s.len && whole.as_ptr() as usize == base, "C16.merge.restores_the_whole_range");
        core::mem::forget(whole);
    } else {
        core::mem::forget(part);
        core::mem::forget(b);
    }
    kani::cover!(!interior || (lo > 0 && hi < s.len && lo < hi), "interior-range");
    kani::cover!(interior || (lo == 0 && hi == s.len && s.len > 0), "full-range");
    kani::cover!(interior || lo == hi, "empty-range");
    kani::cover!(interior || (lo == 0 && hi > 0 && hi < s.len), "prefix");
    kani::cover!(interior || (lo > 0 && lo < hi && hi == s.len), "suffix");
}

#[kani::proof]
#[kani::unwind(5)]
pub(crate) fn split_off_edges_len3() {
    split_off_partitions(3, false);
}

#[kani::proof]
#[kani::unwind(7)]
pub(crate) fn split_off_edges_len4() {
    split_off_partitions(4, false);
}

#[kani::proof]
#[kani::unwind(7)]
pub(crate) fn split_off_interior_len3() {
    split_off_partitions(3, true);
}

#[kani::proof]
#[kani::unwind(7)]
pub(crate) fn split_at_first_last() {
    let s = Sym::any();
    let mut buf = [MaybeUninit::uninit(); CAP];
    let base = buf.as_ptr() as usize;
    let b = boxed(&mut buf, &s);
    let op: u8 = kani::any();
    kani::assume(op < 3);
    match op {
        0 => {
            let at: usize = kani::any();
            kani::assume(at <= s.len);
            let (l, r) = b.split_at(at);
            kani::assert(l.len() == at && r.len() == s.len - at, "C16.split_at.lengths");
            kani::assert(l.as_ptr() as usize == base && r.as_ptr() as usize == base + at, "C16.split_at.adjacent_in_order");
            let i: usize = kani::any();
            kani::assume(i < s.len);
            kani::assert(if i < at { l[i] == s.vals[i] } else { r[i - at] == s.vals[i] }, "C16.split_at.elements_in_order");
            core::mem::forget(l);
            core::mem::forget(r);
        }
        1 => match b.split_first() {
            Some((f, rest)) => {
                kani::assert(s.len > 0 && *f == s.vals[0] && rest.len() == s.len - 1 && rest.as_ptr() as usize == base + 1, "C16.split_first");
                core::mem::forget(f);
                core::mem::forget(rest);
            }
            None => kani::assert(s.len == 0, "C16.split_first.none_only_when_empty"),
        },
        _ => match b.split_last() {
            Some((l, rest)) => {
                kani::assert(s.len > 0 && *l == s.vals[s.len - 1] && rest.len() == s.len - 1 && rest.as_ptr() as usize == base, "C16.split_last");
                core::mem::forget(l);
                core::mem::forget(rest);
            }
            None => kani::assert(s.len == 0, "C16.split_last.none_only_when_empty"),
        },
    }
    kani::cover!(op == 0 && s.len >= 2, "split-at");
}

#[kani::proof]
#[kani::unwind(7)]
pub(crate) fn merge_restores_whole() {
    let s = Sym::any();
    let mut buf = [MaybeUninit::uninit(); CAP];
    let base = buf.as_ptr() as usize;
    let b = boxed(&mut buf, &s);
    let at: usize = kani::any();
    kani::assume(at <= s.len);
    let (l, r) = b.split_at(at);
    let whole = l.merge(r);
    kani::assert(whole.len() == s.len && whole.as_ptr() as usize == base, "C16.merge.adjacent_parts_restore_the_whole");
    let i: usize = kani::any();
    kani::assume(i < s.len);
    kani::assert(whole[i] == s.vals[i], "C16.merge.elements_in_order");
    kani::cover!(at > 0 && at < s.len, "both-parts-non-empty");
    core::mem::forget(whole);
}

/// merging parts that are not adjacent (here: in the wrong order) is rejected by a panic
#[kani::proof]
#[kani::unwind(7)]
#[kani::should_panic]
pub(crate) fn merge_non_adjacent_panics() {
    let mut s = Sym::any();
    kani::assume(s.len >= 2);
    let mut buf = [MaybeUninit::uninit(); CAP];
    let b = boxed(&mut buf, &s);
    let at: usize = kani::any();
    kani::assume(at >= 1 && at < s.len);
    let (l, r) = b.split_at(at);
    let w = r.merge(l);
    kani::cover!(true, "must-not-reach: merge of non-adjacent parts returned");
    core::mem::forget(w);
}

#[kani::proof]
#[kani::unwind(7)]
pub(crate) fn split_off_first_last_and_spare() {
    let s = Sym::any();
    let mut buf = [MaybeUninit::uninit(); CAP];
    let base = buf.as_ptr() as usize;
    let op: u8 = kani::any();
    kani::assume(op < 3);
    if op == 2 {
        let v = fixed(&mut buf, &s);
        let (init, spare) = v.split_at_spare();
        kani::assert(init.len() == s.len && spare.len() == CAP - s.len, "C16.split_at_spare.lengths_add_up_to_capacity");
        kani::assert(init.as_ptr() as usize == base && spare.as_ptr() as usize == base + s.len, "C16.split_at_spare.adjacent");
        let i: usize = kani::any();
        kani::assume(i < s.len);
        kani::assert(init[i] == s.vals[i], "C16.split_at_spare.elements_in_order");
        core::mem::forget(init);
        core::mem::forget(spare);
    } else {
        let mut b = boxed(&mut buf, &s);
        let first = op == 0;
        let r = if first { b.split_off_first() } else { b.split_off_last() };
        match r {
            Some(x) => {
                kani::assert(s.len > 0 && *x == (if first { s.vals[0] } else { s.vals[s.len - 1] }), "C16.split_off_first_last.element");
                kani::assert(b.len() == s.len - 1 && b.as_ptr() as usize == (if first { base + 1 } else { base }), "C16.split_off_first_last.rest");
                let i: usize = kani::any();
                kani::assume(i < b.len());
                kani::assert(b[i] == s.vals[if first { i + 1 } else { i }], "C16.split_off_first_last.rest_in_order");
                core::mem::forget(x);
            }
            None => kani::assert(s.len == 0 && b.len() == 0, "C16.split_off_first_last.none_only_when_empty"),
        }
        core::mem::forget(b);
    }
    kani::cover!(op == 2 && s.len > 0 && s.len < CAP, "spare-non-trivial");
    kani::cover!(op == 0 && s.len >= 2, "first");
}

/// `split_off` for EVERY range of a slice of the given length, with symbolic element values but CONCRETE
/// length and range (the element rotation inside `split_off` has only concrete control flow then, which
/// CBMC executes quickly; with symbolic ranges it did not finish).  Complete over ranges for this length.
pub(crate) fn split_off_every_range(len: usize, fixed_vec: bool) {
    let mut lo = 0;
    while lo <= len {
        let mut hi = lo;
        while hi <= len {
            let s = Sym::with_len(len);
            let mut buf = [MaybeUninit::uninit(); CAP6];
            let base = buf.as_ptr() as usize;
            let mut i = 0;
            while i < len {
                buf[i] = MaybeUninit::new(s.vals6[i]);
                i += 1;
            }
            if fixed_vec {
                let b: BumpBox<'_, [MaybeUninit<u8>]> =
                    unsafe { BumpBox::from_raw(NonNull::slice_from_raw_parts(NonNull::new_unchecked(buf.as_mut_ptr()), CAP6)) };
                let mut v = FixedBumpVec::from_uninit(b);
                unsafe { v.set_len(len) };
                let part = v.split_off(lo..hi);
                kani::assert(part.len() == hi - lo && v.len() == len - (hi - lo), "C16.fixed_split_off.lengths_add_up");
                kani::assert(part.capacity() + v.capacity() == CAP6 && part.capacity() >= part.len() && v.capacity() >= v.len(), "C16.fixed_split_off.capacities_add_up");
                let mut j = 0;
                while j < len {
                    if j < part.len() {
                        kani::assert(part[j] == s.vals6[lo + j], "C16.fixed_split_off.part_is_the_range_in_order");
                    }
                    if j < v.len() {
                        let src = if j < lo { j } else { j + (hi - lo) };
                        kani::assert(v[j] == s.vals6[src], "C16.fixed_split_off.rest_keeps_order");
                    }
                    j += 1;
                }
                let (pa, pe) = (part.as_ptr() as usize, part.as_ptr() as usize + part.capacity());
                let (ra, re) = (v.as_ptr() as usize, v.as_ptr() as usize + v.capacity());
                kani::assert(part.capacity() == 0 || v.capacity() == 0 || pe <= ra || re <= pa, "C16.fixed_split_off.buffers_disjoint");
                kani::assert((part.capacity() == 0 || (pa >= base && pe <= base + CAP6)) && (v.capacity() == 0 || (ra >= base && re <= base + CAP6)), "C16.fixed_split_off.buffers_inside_original");
                core::mem::forget(part);
                core::mem::forget(v);
            } else {
                let mut b: BumpBox<'_, [u8]> =
                    unsafe { BumpBox::from_raw(NonNull::slice_from_raw_parts(NonNull::new_unchecked(buf.as_mut_ptr().cast::<u8>()), len)) };
                let part = b.split_off(lo..hi);
                kani::assert(part.len() == hi - lo && b.len() == len - (hi - lo), "C16.split_off.lengths_add_up");
                let mut j = 0;
                while j < len {
                    if j < part.len() {
                        kani::assert(part[j] == s.vals6[lo + j], "C16.split_off.part_is_the_range_in_order");
                    }
                    if j < b.len() {
                        let src = if j < lo { j } else { j + (hi - lo) };
                        kani::assert(b[j] == s.vals6[src], "C16.split_off.rest_keeps_order");
                    }
                    j += 1;
                }
                let (pa, pe) = (part.as_ptr() as usize, part.as_ptr() as usize + part.len());
                let (ra, re) = (b.as_ptr() as usize, b.as_ptr() as usize + b.len());
                if part.len() > 0 && b.len() > 0 {
                    kani::assert(pe == ra || re == pa, "C16.split_off.parts_adjacent");
                }
                kani::assert((part.len() == 0 || (pa >= base && pe <= base + len)) && (b.len() == 0 || (ra >= base && re <= base + len)), "C16.split_off.parts_inside_original");
                core::mem::forget(part);
                core::mem::forget(b);
            }
            hi += 1;
        }
        lo += 1;
    }
    kani::cover!(true, "all-ranges-done");
}

macro_rules! split_off_inst {
    ($($name:ident = ($len:literal, $fv:literal)),*) => {
        $(
            #[kani::proof]
            #[kani::unwind(9)]
            pub(crate) fn $name() {
                split_off_every_range($len, $fv);
            }
        )*
    };
}
split_off_inst!(split_off_all_ranges_len3 = (3, false), split_off_all_ranges_len4 = (4, false), split_off_all_ranges_len5 = (5, false), split_off_all_ranges_len6 = (6, false),
                fixed_split_off_all_ranges_len4 = (4, true), fixed_split_off_all_ranges_len5 = (5, true), fixed_split_off_all_ranges_len6 = (6, true));

pub(crate) fn fixed_vec_split_off_capacity(len: usize) {
    let s = Sym::with_len(len);
    let mut buf = [MaybeUninit::uninit(); CAP];
    let mut v = fixed(&mut buf, &s);
    let (lo, hi): (usize, usize) = (kani::any(), kani::any());
    kani::assume(lo <= hi && hi <= s.len);
    kani::assume(!(lo > 0 && hi < s.len && lo < hi)); // interior ranges rotate: see split_off_interior_len3
    let part = v.split_off(lo..hi);
    kani::assert(part.len() == hi - lo && v.len() == s.len - (hi - lo), "C16.fixed_split_off.lengths_add_up");
    kani::assert(part.capacity() + v.capacity() == CAP, "C16.fixed_split_off.capacities_add_up");
    kani::assert(part.capacity() >= part.len() && v.capacity() >= v.len(), "C08.fixed_split_off.capacity_at_least_len");
    let mut i = 0;
    while i < MAXLEN {
        if i < part.len() {
            kani::assert(part[i] == s.vals[lo + i], "C16.fixed_split_off.part_is_the_range_in_order");
        }
        if i < v.len() {
            let src = if i < lo { i } else { i + (hi - lo) };
            kani::assert(v[i] == s.vals[src], "C16.fixed_split_off.rest_keeps_order");
        }
        i += 1;
    }
    // the parts' buffers (capacity included) do not overlap
    let (pa, pe) = (part.as_ptr() as usize, part.as_ptr() as usize + part.capacity());
    let (ra, re) = (v.as_ptr() as usize, v.as_ptr() as usize + v.capacity());
    kani::assert(part.capacity() == 0 || v.capacity() == 0 || pe <= ra || re <= pa, "C16.fixed_split_off.buffers_disjoint");
    kani::cover!(lo == 0 && hi > 0 && hi < s.len, "prefix");
    kani::cover!(hi == s.len && lo < hi, "suffix");
    core::mem::forget(part);
    core::mem::forget(v);
}

#[kani::proof]
#[kani::unwind(7)]
pub(crate) fn fixed_vec_split_off_capacity_len3() {
    fixed_vec_split_off_capacity(3);
}

#[kani::proof]
#[kani::unwind(7)]
pub(crate) fn fixed_vec_split_off_capacity_len4() {
    fixed_vec_split_off_capacity(4);
}

// ------------------------------------------------------------------------------------------ C06

pub(crate) static mut DROPS: [u8; CAP] = [0; CAP];

pub(crate) struct Tok(pub u8);

impl Drop for Tok {
    fn drop(&mut self) {
        unsafe {
            DROPS[self.0 as usize] += 1;
            kani::assert(DROPS[self.0 as usize] <= 1, "C06.never_dropped_twice");
        }
    }
}

fn tok_box<'a>(buf: &'a mut [MaybeUninit<Tok>; CAP], len: usize) -> BumpBox<'a, [Tok]> {
    unsafe { DROPS = [0; CAP] };
    let mut i = 0;
    while i < len {
        buf[i] = MaybeUninit::new(Tok(i as u8));
        i += 1;
    }
    unsafe { BumpBox::from_raw(NonNull::slice_from_raw_parts(NonNull::new_unchecked(buf.as_mut_ptr().cast::<Tok>()), len)) }
}

fn all_dropped_once(len: usize) -> bool {
    let mut ok = true;
    let mut i = 0;
    while i < CAP {
        ok = ok && unsafe { DROPS[i] } == (if i < len { 1 } else { 0 });
        i += 1;
    }
    ok
}

pub(crate) fn drops_exactly_once(op: u8) {
    let len: usize = kani::any();
    kani::assume(len <= 3);
    let mut buf: [MaybeUninit<Tok>; CAP] = [const { MaybeUninit::uninit() }; CAP];
    let mut b = tok_box(&mut buf, len);
    let idx: usize = kani::any();
    let (lo, hi): (usize, usize) = (kani::any(), kani::any());
    match op {
        0 => {
            b.clear();
        }
        1 => {
            kani::assume(idx <= 6);
            b.truncate(idx);
        }
        2 => {
            kani::assume(idx < len);
            let t = b.remove(idx);
            kani::assert(unsafe { DROPS[t.0 as usize] } == 0, "C06.removed_value_not_dropped_yet");
            drop(t);
        }
        3 => {
            kani::assume(idx < len);
            drop(b.swap_remove(idx));
        }
        4 => {
            drop(b.pop());
        }
        5 => {
            let keep: u8 = kani::any();
            b.retain(|t| t.0 & 1 == keep & 1);
        }
        6 => {
            kani::assume(lo <= hi && hi <= len);
            let mut d = b.drain(lo..hi);
            // consume only part of the drain, then drop it
            let take: bool = kani::any();
            if take {
                drop(d.next());
            }
            drop(d);
        }
        _ => {
            kani::assume(lo <= hi && hi <= len && !(lo > 0 && hi < len && lo < hi));
            let part = b.split_off(lo..hi);
            drop(part);
        }
    }
    drop(b);
    kani::assert(all_dropped_once(len), "C06.every_value_dropped_exactly_once");
    kani::cover!(op != 6 || hi - lo >= 2, "drain-partially-consumed");
    kani::cover!(len >= 2, "two-or-more-elements");
}

macro_rules! drops_inst {
    ($($name:ident = $op:literal),*) => {
        $(
            #[kani::proof]
            #[kani::unwind(7)]
            pub(crate) fn $name() {
                drops_exactly_once($op);
            }
        )*
    };
}
drops_inst!(drops_clear = 0, drops_truncate = 1, drops_remove = 2, drops_swap_remove = 3, drops_pop = 4, drops_retain = 5, drops_drain = 6, drops_split_off = 7);

#[kani::proof]
#[kani::unwind(7)]
pub(crate) fn leak_routes_skip_drop() {
    let len: usize = kani::any();
    kani::assume(len >= 1 && len <= MAXLEN);
    let mut buf: [MaybeUninit<Tok>; CAP] = [const { MaybeUninit::uninit() }; CAP];
    let b = tok_box(&mut buf, len);
    let which: bool = kani::any();
    if which {
        let _r = BumpBox::leak(b);
    } else {
        let _p = b.into_raw();
    }
    kani::assert(all_dropped_once(0), "C06.leak_routes_drop_nothing");
}

#[kani::proof]
#[kani::unwind(7)]
pub(crate) fn into_iter_drops_rest() {
    let len: usize = kani::any();
    kani::assume(len <= MAXLEN);
    let mut buf: [MaybeUninit<Tok>; CAP] = [const { MaybeUninit::uninit() }; CAP];
    let b = tok_box(&mut buf, len);
    let mut it = b.into_iter();
    let (f, k): (bool, bool) = (kani::any(), kani::any());
    if f {
        drop(it.next());
    }
    if k {
        drop(it.next_back());
    }
    drop(it);
    kani::assert(all_dropped_once(len), "C06.into_iter.every_value_dropped_exactly_once");
    kani::cover!(f && k && len >= 3, "both-ends-consumed");
}

// ------------------------------------------------------------------------------------------ C09

pub(crate) const SCAP: usize = 8;

/// up to two symbolic chars from an alphabet that covers every UTF-8 length: 'a' (1 byte), 'é' (2), '€' (3), '𝄞' (4).
/// (Fully symbolic `char`s make `char::encode_utf8` + UTF-8 validation too expensive for CBMC.)
pub(crate) struct SymStr {
    pub bytes: [u8; SCAP],
    pub len: usize,
}

const ALPHABET: [&str; 4] = ["a", "\u{e9}", "\u{20ac}", "\u{1d11e}"];

impl SymStr {
    pub(crate) fn any() -> Self {
        let mut bytes = [0u8; SCAP];
        let mut len = 0;
        let n: u8 = kani::any();
        kani::assume(n <= 2);
        let mut i = 0;
        while i < n {
            let c: usize = kani::any();
            kani::assume(c < 4 && (i == 0 || c < 2)); // second char: 1 or 2 bytes
            let e = ALPHABET[c].as_bytes();
            let mut j = 0;
            while j < e.len() {
                bytes[len] = e[j];
                len += 1;
                j += 1;
            }
            i += 1;
        }
        SymStr { bytes, len }
    }
    pub(crate) fn as_str(&self) -> &str {
        unsafe { core::str::from_utf8_unchecked(&self.bytes[..self.len]) }
    }
}

/// Symbolic text with a CONCRETE byte-length pattern: character i has `pat[i]` bytes (1..=4, 0 = absent), its bytes
/// are symbolic within the well-formed ranges of that length class (so every scalar value of that length occurs).
pub(crate) fn sym_text(pat: [usize; 2]) -> SymStr {
    sym_text3([pat[0], pat[1], 0])
}

pub(crate) fn sym_text3(pat: [usize; 3]) -> SymStr {
    let mut bytes = [0u8; SCAP];
    let mut len = 0;
    let mut i = 0;
    while i < 3 {
        let n = pat[i];
        if n == 1 {
            let b: u8 = kani::any();
            kani::assume(b < 0x80);
            bytes[len] = b;
        } else if n == 2 {
            let (b0, b1): (u8, u8) = (kani::any(), kani::any());
            kani::assume(b0 >= 0xC2 && b0 <= 0xDF && b1 & 0xC0 == 0x80);
            bytes[len] = b0;
            bytes[len + 1] = b1;
        } else if n == 3 {
            let (b0, b1, b2): (u8, u8, u8) = (kani::any(), kani::any(), kani::any());
            kani::assume(b0 >= 0xE0 && b0 <= 0xEF && b1 & 0xC0 == 0x80 && b2 & 0xC0 == 0x80);
            kani::assume(b0 != 0xE0 || b1 >= 0xA0); // no overlong
            kani::assume(b0 != 0xED || b1 <= 0x9F); // no surrogates
            bytes[len] = b0;
            bytes[len + 1] = b1;
            bytes[len + 2] = b2;
        } else if n == 4 {
            let (b0, b1, b2, b3): (u8, u8, u8, u8) = (kani::any(), kani::any(), kani::any(), kani::any());
            kani::assume(b0 >= 0xF0 && b0 <= 0xF4 && b1 & 0xC0 == 0x80 && b2 & 0xC0 == 0x80 && b3 & 0xC0 == 0x80);
            kani::assume(b0 != 0xF0 || b1 >= 0x90);
            kani::assume(b0 != 0xF4 || b1 <= 0x8F);
            bytes[len] = b0;
            bytes[len + 1] = b1;
            bytes[len + 2] = b2;
            bytes[len + 3] = b3;
        }
        len += n;
        i += 1;
    }
    SymStr { bytes, len }
}

/// String operations against std::string::String for a concrete length pattern and a CONCRETE byte index / range
/// (every index 0..=len is enumerated), symbolic scalar values.
pub(crate) fn str_ops_every_index(pat: [usize; 2]) {
    let total = pat[0] + pat[1];
    let mut idx = 0;
    while idx <= total {
        let s = sym_text(pat);
        let boundary = idx == 0 || idx == pat[0] || idx == total;
        // truncate / split_off(idx..) / remove at idx / pop
        if boundary {
            let mut buf = [0u8; SCAP];
            let mut b = str_box(&mut buf, &s);
            let mut m = String::from(s.as_str());
            b.truncate(idx);
            m.truncate(idx);
            kani::assert(same(b.as_bytes(), m.as_bytes()) && valid_utf8(b.as_bytes()), "C09.box_str.truncate.same_as_std_and_valid");
            core::mem::forget(b);

            let mut buf = [0u8; SCAP];
            let mut b = str_box(&mut buf, &s);
            let part = b.split_off(idx..);
            let mut m = String::from(s.as_str());
            let tail = m.split_off(idx);
            kani::assert(same(b.as_bytes(), m.as_bytes()) && same(part.as_bytes(), tail.as_bytes()), "C09.box_str.split_off.same_as_std");
            kani::assert(valid_utf8(b.as_bytes()) && valid_utf8(part.as_bytes()), "C09.box_str.split_off.both_valid_utf8");
            core::mem::forget(part);
            core::mem::forget(b);

            if idx < total {
                let mut buf = [0u8; SCAP];
                let mut b = str_box(&mut buf, &s);
                let mut m = String::from(s.as_str());
                kani::assert(b.remove(idx) == m.remove(idx), "C09.box_str.remove.returns_same_char");
                kani::assert(same(b.as_bytes(), m.as_bytes()) && valid_utf8(b.as_bytes()), "C09.box_str.remove.same_as_std_and_valid");
                core::mem::forget(b);
            }
        }
        idx += 1;
    }
    let s = sym_text(pat);
    let mut buf = [0u8; SCAP];
    let mut b = str_box(&mut buf, &s);
    let mut m = String::from(s.as_str());
    kani::assert(b.pop() == m.pop(), "C09.box_str.pop.returns_same_char");
    kani::assert(same(b.as_bytes(), m.as_bytes()) && valid_utf8(b.as_bytes()), "C09.box_str.pop.same_as_std_and_valid");
    kani::assert(b.pop() == m.pop() && same(b.as_bytes(), m.as_bytes()), "C09.box_str.pop_twice.same_as_std");
    core::mem::forget(b);
    kani::cover!(true, "all-indices-done");
}

macro_rules! str_pat_inst {
    ($f:ident: $($name:ident = [$a:literal, $b:literal]),*) => {
        $(
            #[kani::proof]
            #[kani::unwind(12)]
            pub(crate) fn $name() {
                $f([$a, $b]);
            }
        )*
    };
}
str_pat_inst!(str_ops_every_index:
    str_ops_pat_1_0 = [1, 0], str_ops_pat_2_0 = [2, 0], str_ops_pat_3_0 = [3, 0], str_ops_pat_4_0 = [4, 0],
    str_ops_pat_1_1 = [1, 1], str_ops_pat_1_2 = [1, 2], str_ops_pat_1_3 = [1, 3], str_ops_pat_1_4 = [1, 4],
    str_ops_pat_2_1 = [2, 1], str_ops_pat_2_2 = [2, 2], str_ops_pat_2_3 = [2, 3], str_ops_pat_2_4 = [2, 4],
    str_ops_pat_3_1 = [3, 1], str_ops_pat_3_2 = [3, 2], str_ops_pat_3_3 = [3, 3], str_ops_pat_3_4 = [3, 4],
    str_ops_pat_4_1 = [4, 1], str_ops_pat_4_2 = [4, 2], str_ops_pat_4_3 = [4, 3], str_ops_pat_4_4 = [4, 4]);

/// FixedBumpString growing operations against std::string::String (capacity SCAP bytes): push, push_str, insert,
/// insert_str, replace_range, extend_from_within at every boundary index; when the result does not fit the
/// capacity the try_ method reports an error and the contents are unchanged (C07).
pub(crate) fn fixed_str_grow_ops(pat: [usize; 2]) {
    use crate::FixedBumpString;
    let total = pat[0] + pat[1];
    let ins = sym_text([pat[1], 0]); // text to insert: one char of the second class
    let c = ins.as_str().chars().next();
    let mut idx = 0;
    while idx <= total {
        if idx == 0 || idx == pat[0] || idx == total {
            let s = sym_text(pat);
            let mut ops = 0;
            while ops < 4 {
                let mut buf = [MaybeUninit::<u8>::uninit(); SCAP];
                let mut j = 0;
                while j < s.len {
                    buf[j] = MaybeUninit::new(s.bytes[j]);
                    j += 1;
                }
                let raw: BumpBox<'_, [MaybeUninit<u8>]> =
                    unsafe { BumpBox::from_raw(NonNull::slice_from_raw_parts(NonNull::new_unchecked(buf.as_mut_ptr()), SCAP)) };
                let mut v = FixedBumpVec::from_uninit(raw);
                unsafe { v.set_len(s.len) };
                let mut f = unsafe { FixedBumpString::from_utf8_unchecked(v) };
                let mut m = String::from(s.as_str());
                let fits;
                let r = match ops {
                    0 => {
                        fits = s.len + ins.len <= SCAP;
                        if let Some(c) = c {
                            if fits {
                                m.insert(idx, c);
                            }
                            f.try_insert(idx, c).is_ok()
                        } else {
                            fits
                        }
                    }
                    1 => {
                        fits = s.len + ins.len <= SCAP;
                        if fits {
                            m.insert_str(idx, ins.as_str());
                        }
                        f.try_insert_str(idx, ins.as_str()).is_ok()
                    }
                    2 => {
                        fits = s.len + ins.len <= SCAP;
                        if fits {
                            m.push_str(ins.as_str());
                        }
                        f.try_push_str(ins.as_str()).is_ok()
                    }
                    _ => {
                        // replace the first char by the inserted text
                        fits = s.len - pat[0] + ins.len <= SCAP;
                        if fits {
                            m.replace_range(0..pat[0], ins.as_str());
                        }
                        f.try_replace_range(0..pat[0], ins.as_str()).is_ok()
                    }
                };
                kani::assert(r == fits, "C09.fixed_str.try_op_succeeds_iff_it_fits");
                kani::assert(same(f.as_bytes(), m.as_bytes()), "C09.fixed_str.same_as_std_or_unchanged_on_error");
                kani::assert(valid_utf8(f.as_bytes()), "C09.fixed_str.valid_utf8");
                kani::assert(f.capacity() == SCAP && f.len() <= SCAP, "C08.fixed_str.capacity_fixed");
                core::mem::forget(f);
                ops += 1;
            }
        }
        idx += 1;
    }
    kani::cover!(true, "all-indices-done");
}

str_pat_inst!(fixed_str_grow_ops:
    fixed_str_grow_pat_1_2 = [1, 2], fixed_str_grow_pat_3_1 = [3, 1], fixed_str_grow_pat_2_4 = [2, 4], fixed_str_grow_pat_4_3 = [4, 3], fixed_str_grow_pat_4_4 = [4, 4]);

/// `FixedBumpString::split_off` for EVERY boundary range of a three-character text: contents as
/// `String::drain(range)` / remainder, both valid UTF-8, capacities add up to the original capacity, and each part
/// really owns its capacity: filling a part up to its capacity does not change the other part (C16 independence).
pub(crate) fn fixed_str_split_off(pat: [usize; 3]) {
    use crate::FixedBumpString;
    let bounds = [0, pat[0], pat[0] + pat[1], pat[0] + pat[1] + pat[2]];
    let total = bounds[3];
    let mut bi = 0;
    while bi < 4 {
        let mut bj = bi;
        while bj < 4 {
            let (lo, hi) = (bounds[bi], bounds[bj]);
            let s = sym_text3(pat);
            let mut buf = [MaybeUninit::<u8>::uninit(); SCAP];
            let mut j = 0;
            while j < s.len {
                buf[j] = MaybeUninit::new(s.bytes[j]);
                j += 1;
            }
            let raw: BumpBox<'_, [MaybeUninit<u8>]> =
                unsafe { BumpBox::from_raw(NonNull::slice_from_raw_parts(NonNull::new_unchecked(buf.as_mut_ptr()), SCAP)) };
            let mut v = FixedBumpVec::from_uninit(raw);
            unsafe { v.set_len(s.len) };
            let mut f = unsafe { FixedBumpString::from_utf8_unchecked(v) };
            let base = f.as_ptr() as usize;
            let part = f.split_off(lo..hi);
            // expected contents straight from the original bytes
            kani::assert(part.len() == hi - lo && f.len() == s.len - (hi - lo), "C16.fixed_str_split_off.lengths_add_up");
            let mut q = 0;
            while q < s.len {
                if q < part.len() {
                    kani::assert(part.as_bytes()[q] == s.bytes[lo + q], "C16.fixed_str_split_off.part_is_the_range");
                }
                if q < f.len() {
                    let src = if q < lo { q } else { q + (hi - lo) };
                    kani::assert(f.as_bytes()[q] == s.bytes[src], "C16.fixed_str_split_off.rest_keeps_order");
                }
                q += 1;
            }
            kani::assert(valid_utf8(part.as_bytes()) && valid_utf8(f.as_bytes()), "C09.fixed_str_split_off.both_valid_utf8");
            kani::assert(part.capacity() + f.capacity() == SCAP && part.capacity() >= part.len() && f.capacity() >= f.len(), "C16.fixed_str_split_off.capacities_add_up");
            // each part owns its capacity: the two buffers (capacity included) are disjoint and inside the original buffer
            let (pa, pe) = (part.as_ptr() as usize, part.as_ptr() as usize + part.capacity());
            let (ra, re) = (f.as_ptr() as usize, f.as_ptr() as usize + f.capacity());
            kani::assert(part.capacity() == 0 || f.capacity() == 0 || pe <= ra || re <= pa, "C16.fixed_str_split_off.buffers_disjoint");
            kani::assert((part.capacity() == 0 || (pa >= base && pe <= base + SCAP)) && (f.capacity() == 0 || (ra >= base && re <= base + SCAP)), "C16.fixed_str_split_off.buffers_inside_original");
            core::mem::forget(part);
            core::mem::forget(f);
            bj += 1;
        }
        bi += 1;
    }
    let _ = total;
    kani::cover!(true, "all-ranges-done");
}

macro_rules! str_pat3_inst {
    ($($name:ident = [$a:literal, $b:literal, $c:literal]),*) => {
        $(
            #[kani::proof]
            #[kani::unwind(12)]
            pub(crate) fn $name() {
                fixed_str_split_off([$a, $b, $c]);
            }
        )*
    };
}
str_pat3_inst!(fixed_str_split_off_1_1_2 = [1, 1, 2], fixed_str_split_off_2_1_3 = [2, 1, 3], fixed_str_split_off_1_2_1 = [1, 2, 1], fixed_str_split_off_2_3_2 = [2, 3, 2]);

/// An index that is out of range or not on a character boundary makes truncate / split_off / remove / insert panic
/// (symbolic index over all non-boundary positions of a concrete length pattern).
pub(crate) fn str_bad_index_panics(pat: [usize; 2]) {
    let total = pat[0] + pat[1];
    let s = sym_text(pat);
    let mut buf = [0u8; SCAP];
    let mut b = str_box(&mut buf, &s);
    let idx: usize = kani::any();
    kani::assume(idx <= total + 1);
    let boundary = idx == 0 || idx == pat[0] || idx == total;
    let op: u8 = kani::any();
    kani::assume(op < 3);
    match op {
        0 => {
            // truncate beyond the length is a no-op (as in std); inside the string a non-boundary panics
            kani::assume(!boundary && idx < total);
            b.truncate(idx);
        }
        1 => {
            kani::assume(!boundary);
            let _ = b.split_off(idx..);
        }
        _ => {
            // remove: idx == len is out of range as well
            kani::assume(!boundary || idx == total);
            let _ = b.remove(idx);
        }
    }
    kani::cover!(true, "must-not-reach: a string operation returned on an out-of-range or non-boundary index");
    core::mem::forget(b);
}

macro_rules! str_panic_inst {
    ($($name:ident = [$a:literal, $b:literal]),*) => {
        $(
            #[kani::proof]
            #[kani::unwind(12)]
            #[kani::should_panic]
            pub(crate) fn $name() {
                str_bad_index_panics([$a, $b]);
            }
        )*
    };
}
str_panic_inst!(str_bad_index_pat_2_3 = [2, 3], str_bad_index_pat_4_1 = [4, 1], str_bad_index_pat_3_4 = [3, 4], str_bad_index_pat_1_2 = [1, 2]);

/// `BumpBox::<str>::from_utf8` accepts exactly the byte strings `core::str::from_utf8` accepts (all byte strings of the given length).
pub(crate) fn from_utf8_matches_std(len: usize) {
    let bytes: [u8; 4] = kani::any();
    let mut buf = bytes;
    let b: BumpBox<'_, [u8]> = unsafe { BumpBox::from_raw(NonNull::slice_from_raw_parts(NonNull::new_unchecked(buf.as_mut_ptr()), len)) };
    let std_ok = core::str::from_utf8(&bytes[..len]).is_ok();
    let r = BumpBox::from_utf8(b);
    kani::assert(r.is_ok() == std_ok, "C09.from_utf8.accepts_exactly_valid_utf8");
    kani::assert(std_ok == valid_utf8(&bytes[..len]), "C09.validator_agrees_with_std");
    kani::cover!(std_ok && len > 0 && bytes[0] >= 0x80, "valid-multibyte");
    kani::cover!(!std_ok, "invalid");
    match r {
        Ok(s) => core::mem::forget(s),
        Err(e) => core::mem::forget(e),
    }
}

#[kani::proof]
#[kani::unwind(12)]
pub(crate) fn from_utf8_len2() {
    from_utf8_matches_std(2);
}
#[kani::proof]
#[kani::unwind(12)]
pub(crate) fn from_utf8_len3() {
    from_utf8_matches_std(3);
}
#[kani::proof]
#[kani::unwind(12)]
pub(crate) fn from_utf8_len4() {
    from_utf8_matches_std(4);
}

/// UTF-8 validity for the short strings used here (independent, simple decoder)
pub(crate) fn valid_utf8(b: &[u8]) -> bool {
    let mut i = 0;
    let mut steps = 0;
    while i < b.len() && steps < SCAP {
        let c = b[i];
        let n = if c < 0x80 {
            1
        } else if c & 0xE0 == 0xC0 && c >= 0xC2 {
            2
        } else if c & 0xF0 == 0xE0 {
            3
        } else if c & 0xF8 == 0xF0 && c <= 0xF4 {
            4
        } else {
            return false;
        };
        if i + n > b.len() {
            return false;
        }
        let mut k = 1;
        while k < n {
            if b[i + k] & 0xC0 != 0x80 {
                return false;
            }
            k += 1;
        }
        // overlong encodings, surrogates and values above U+10FFFF
        if (c == 0xE0 && b[i + 1] < 0xA0) || (c == 0xED && b[i + 1] > 0x9F) || (c == 0xF0 && b[i + 1] < 0x90) || (c == 0xF4 && b[i + 1] > 0x8F) {
            return false;
        }
        i += n;
        steps += 1;
    }
    i == b.len()
}

pub(crate) fn str_box<'a>(buf: &'a mut [u8; SCAP], s: &SymStr) -> BumpBox<'a, str> {
    *buf = s.bytes;
    // same representation as `BumpBox<[u8]>` (what `BumpBox::from_utf8_unchecked` does)
    unsafe { BumpBox::from_raw(NonNull::new_unchecked(core::ptr::slice_from_raw_parts_mut(buf.as_mut_ptr(), s.len) as *mut str)) }
}

#[kani::proof]
#[kani::unwind(10)]
pub(crate) fn str_pop_truncate_remove() {
    let s = SymStr::any();
    let mut buf = [0u8; SCAP];
    let mut b = str_box(&mut buf, &s);
    let mut m = String::from(s.as_str());
    let op: u8 = kani::any();
    kani::assume(op < 4);
    let idx: usize = kani::any();
    kani::assume(idx <= s.len);
    match op {
        0 => kani::assert(b.pop() == m.pop(), "C09.box_str.pop.returns_same"),
        1 => {
            kani::assume(s.as_str().is_char_boundary(idx));
            b.truncate(idx);
            m.truncate(idx);
        }
        2 => {
            kani::assume(idx < s.len && s.as_str().is_char_boundary(idx));
            kani::assert(b.remove(idx) == m.remove(idx), "C09.box_str.remove.returns_same");
        }
        _ => {
            b.clear();
            m.clear();
        }
    }
    kani::assert(same(b.as_bytes(), m.as_bytes()), "C09.box_str.same_contents");
    kani::assert(valid_utf8(b.as_bytes()), "C09.box_str.valid_utf8");
    kani::cover!(op == 2 && idx > 0, "remove-second-char");
    kani::cover!(op == 0 && s.len >= 5, "pop-multibyte");
    core::mem::forget(b);
}

#[kani::proof]
#[kani::unwind(10)]
pub(crate) fn str_split_off() {
    let s = SymStr::any();
    let mut buf = [0u8; SCAP];
    let mut b = str_box(&mut buf, &s);
    let (lo, hi): (usize, usize) = (kani::any(), kani::any());
    kani::assume(lo <= hi && hi <= s.len && s.as_str().is_char_boundary(lo) && s.as_str().is_char_boundary(hi));
    let part = b.split_off(lo..hi);
    kani::assert(part.len() == hi - lo && b.len() == s.len - (hi - lo), "C16.str_split_off.lengths_add_up");
    kani::assert(same(part.as_bytes(), &s.bytes[lo..hi]), "C16.str_split_off.part_is_the_range");
    kani::assert(valid_utf8(part.as_bytes()) && valid_utf8(b.as_bytes()), "C09.str_split_off.both_valid_utf8");
    let mut m = String::from(s.as_str());
    m.replace_range(lo..hi, "");
    kani::assert(same(b.as_bytes(), m.as_bytes()), "C16.str_split_off.rest_keeps_order");
    kani::cover!(lo > 0 && lo < hi, "second-char");
    core::mem::forget(part);
    core::mem::forget(b);
}

/// an index that is not on a character boundary (or out of range) makes the operation panic (C09)
#[kani::proof]
#[kani::unwind(10)]
#[kani::should_panic]
pub(crate) fn str_non_boundary_panics() {
    let s = SymStr::any();
    let mut buf = [0u8; SCAP];
    let mut b = str_box(&mut buf, &s);
    let idx: usize = kani::any();
    kani::assume(idx <= s.len + 1);
    kani::assume(idx > s.len || !s.as_str().is_char_boundary(idx));
    let op: bool = kani::any();
    if op {
        b.truncate(idx);
        // truncate beyond the length is a no-op in std as well: only a non-boundary inside panics
        kani::assume(idx <= s.len);
    } else {
        let _ = b.split_off(idx..);
    }
    kani::cover!(true, "must-not-reach: returned normally on a non-boundary index");
    core::mem::forget(b);
}
