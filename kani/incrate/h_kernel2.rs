//! Full-domain Kani twins of the integer helpers of `src/lib.rs` that had a Verus contract only
//! (complete: loop-free, every 64-bit input).  They give counterexamples and back the PROOF-DRIFT rule.
use super::spec::*;

#[kani::proof]
pub(crate) fn k_up_align_usize_unchecked() {
    let addr: usize = kani::any();
    let a_log: u8 = kani::any();
    kani::assume(a_log < 64);
    let align = 1usize << a_log;
    kani::assume(addr as u128 + align as u128 - 1 <= usize::MAX as u128);
    let r = crate::up_align_usize_unchecked(addr, align);
    kani::assert(is_up(addr as u128, align as u128, r as u128), "C18.lib_up_align_usize_unchecked.post");
    kani::cover!(r != addr, "rounded");
}

#[kani::proof]
pub(crate) fn k_down_align_usize() {
    let addr: usize = kani::any();
    let a_log: u8 = kani::any();
    kani::assume(a_log < 64);
    let align = 1usize << a_log;
    let r = crate::down_align_usize(addr, align);
    kani::assert(is_down(addr as u128, align as u128, r as u128), "C18.lib_down_align_usize.post");
    kani::cover!(r != addr, "rounded");
}

#[kani::proof]
pub(crate) fn k_min_non_zero_cap() {
    let size: usize = kani::any();
    let r = crate::min_non_zero_cap(size);
    // the amortisation policy itself (8 / 4 / 1) is not part of any property; that the first capacity is not zero is
    kani::assert(r >= 1, "C08.min_non_zero_cap.post");
    kani::cover!(r == 1, "large-element");
}
