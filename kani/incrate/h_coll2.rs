//! Layer II, collections, second part: obligations with a CONCRETE shape (length, index, range are
//! enumerated inside the harness) and SYMBOLIC element values.  The operations under contract have
//! loops and element rotations whose control flow is concrete then, so CBMC finishes in seconds,
//! and the enumeration makes the obligation complete over indices / ranges for the stated lengths.
//!   C08 refinement against std::vec::Vec, C06 drop counting, C16 partition / flatten / map.
use core::{mem::MaybeUninit, ptr::NonNull};
use std::vec::Vec;

use super::h_coll::{Tok, DROPS};
use crate::{BumpBox, FixedBumpVec};

const N: usize = 6;

fn vals() -> [u8; N] {
    kani::any()
}

fn mk_box<'a>(buf: &'a mut [MaybeUninit<u8>; N], v: &[u8; N], len: usize) -> BumpBox<'a, [u8]> {
    let mut i = 0;
    while i < len {
        buf[i] = MaybeUninit::new(v[i]);
        i += 1;
    }
    unsafe { BumpBox::from_raw(NonNull::slice_from_raw_parts(NonNull::new_unchecked(buf.as_mut_ptr().cast::<u8>()), len)) }
}

fn mk_fixed<'a>(buf: &'a mut [MaybeUninit<u8>; N], v: &[u8; N], len: usize) -> FixedBumpVec<'a, u8> {
    let mut i = 0;
    while i < len {
        buf[i] = MaybeUninit::new(v[i]);
        i += 1;
    }
    let b: BumpBox<'a, [MaybeUninit<u8>]> = unsafe { BumpBox::from_raw(NonNull::slice_from_raw_parts(NonNull::new_unchecked(buf.as_mut_ptr()), N)) };
    let mut f = FixedBumpVec::from_uninit(b);
    unsafe { f.set_len(len) };
    f
}

fn mk_vec(v: &[u8; N], len: usize) -> Vec<u8> {
    let mut m = Vec::with_capacity(N + 1);
    let mut i = 0;
    while i < len {
        m.push(v[i]);
        i += 1;
    }
    m
}

fn same(a: &[u8], b: &[u8]) -> bool {
    if a.len() != b.len() {
        return false;
    }
    let mut i = 0;
    let mut ok = true;
    while i < a.len() {
        ok = ok && a[i] == b[i];
        i += 1;
    }
    ok
}

/// drain(lo..hi) for every range, consumed from the front / the back / not at all (dropped)
pub(crate) fn drain_every_range(len: usize) {
    let mut lo = 0;
    while lo <= len {
        let mut hi = lo;
        while hi <= len {
            let mut mode = 0;
            while mode < 3 {
                let v = vals();
                let mut buf = [MaybeUninit::uninit(); N];
                let mut b = mk_box(&mut buf, &v, len);
                let mut m = mk_vec(&v, len);
                {
                    let mut d = b.drain(lo..hi);
                    let mut e = m.drain(lo..hi);
                    if mode < 2 {
                        let mut k = 0;
                        while k <= len {
                            let (x, y) = if mode == 0 { (d.next(), e.next()) } else { (d.next_back(), e.next_back()) };
                            kani::assert(x == y, "C08.drain.yields_same_as_vec");
                            k += 1;
                        }
                    }
                }
                kani::assert(same(b.as_slice(), m.as_slice()), "C08.drain.same_rest_as_vec");
                core::mem::forget(b);
                mode += 1;
            }
            hi += 1;
        }
        lo += 1;
    }
    kani::cover!(true, "all-ranges-done");
}

/// insert / remove / swap_remove at every index; extend_from_within_copy for every range; resize; dedup_by_key; retain
pub(crate) fn index_ops_every_index(len: usize) {
    let x: u8 = kani::any();
    let mut idx = 0;
    while idx <= len {
        // insert (the fixed vector has room: len < N)
        if len < N {
            let v = vals();
            let mut buf = [MaybeUninit::uninit(); N];
            let mut f = mk_fixed(&mut buf, &v, len);
            let mut m = mk_vec(&v, len);
            kani::assert(f.try_insert(idx, x).is_ok(), "C08.fixed_vec.insert_ok");
            m.insert(idx, x);
            kani::assert(same(f.as_slice(), m.as_slice()), "C08.fixed_vec.insert_same_as_vec");
            core::mem::forget(f);
        }
        if idx < len {
            let v = vals();
            let mut buf = [MaybeUninit::uninit(); N];
            let mut f = mk_fixed(&mut buf, &v, len);
            let mut m = mk_vec(&v, len);
            kani::assert(f.remove(idx) == m.remove(idx), "C08.fixed_vec.remove_returns_same");
            kani::assert(same(f.as_slice(), m.as_slice()), "C08.fixed_vec.remove_same_as_vec");
            core::mem::forget(f);
            let mut buf = [MaybeUninit::uninit(); N];
            let mut f = mk_fixed(&mut buf, &v, len);
            let mut m = mk_vec(&v, len);
            kani::assert(f.swap_remove(idx) == m.swap_remove(idx), "C08.fixed_vec.swap_remove_returns_same");
            kani::assert(same(f.as_slice(), m.as_slice()), "C08.fixed_vec.swap_remove_same_as_vec");
            core::mem::forget(f);
        }
        // extend_from_within_copy(idx..hi) for every hi, as far as it fits
        let mut hi = idx;
        while hi <= len {
            let v = vals();
            let mut buf = [MaybeUninit::uninit(); N];
            let mut f = mk_fixed(&mut buf, &v, len);
            let mut m = mk_vec(&v, len);
            let fits = len + (hi - idx) <= N;
            let r = f.try_extend_from_within_copy(idx..hi);
            kani::assert(r.is_ok() == fits, "C08.fixed_vec.extend_from_within_ok_iff_it_fits");
            if fits {
                m.extend_from_within(idx..hi);
            }
            kani::assert(same(f.as_slice(), m.as_slice()), "C08.fixed_vec.extend_from_within_same_as_vec_or_unchanged");
            core::mem::forget(f);
            hi += 1;
        }
        idx += 1;
    }
    // resize to every length within capacity, dedup_by_key, retain, truncate
    let mut nl = 0;
    while nl <= N {
        let v = vals();
        let mut buf = [MaybeUninit::uninit(); N];
        let mut f = mk_fixed(&mut buf, &v, len);
        let mut m = mk_vec(&v, len);
        kani::assert(f.try_resize(nl, x).is_ok(), "C08.fixed_vec.resize_ok_within_capacity");
        m.resize(nl, x);
        kani::assert(same(f.as_slice(), m.as_slice()), "C08.fixed_vec.resize_same_as_vec");
        core::mem::forget(f);
        nl += 1;
    }
    let v = vals();
    let mut buf = [MaybeUninit::uninit(); N];
    let mut f = mk_fixed(&mut buf, &v, len);
    let mut m = mk_vec(&v, len);
    f.dedup_by_key(|e| *e >> 1);
    m.dedup_by_key(|e| *e >> 1);
    kani::assert(same(f.as_slice(), m.as_slice()), "C08.fixed_vec.dedup_by_key_same_as_vec");
    f.retain(|e| *e & 1 == x & 1);
    m.retain(|e| *e & 1 == x & 1);
    kani::assert(same(f.as_slice(), m.as_slice()), "C08.fixed_vec.retain_same_as_vec");
    core::mem::forget(f);
    kani::cover!(true, "all-indices-done");
}

/// partition, map_in_place, into_flattened keep element count and order (C16)
pub(crate) fn partition_map_flatten(len: usize) {
    let v = vals();
    let t: u8 = kani::any();
    // partition: every element exactly once, the left part satisfies the predicate, the right part does not
    let mut buf = [MaybeUninit::uninit(); N];
    let b = mk_box(&mut buf, &v, len);
    let (l, r) = b.partition(|e| *e & 3 == t & 3);
    kani::assert(l.len() + r.len() == len, "C16.partition.lengths_add_up");
    kani::assert(l.len() == 0 || r.len() == 0 || l.as_ptr() as usize + l.len() == r.as_ptr() as usize, "C16.partition.parts_adjacent");
    let mut i = 0;
    let (mut cnt_l, mut cnt_src) = (0usize, 0usize);
    while i < len {
        if i < l.len() {
            kani::assert(l[i] & 3 == t & 3, "C16.partition.left_satisfies_predicate");
        }
        if i < r.len() {
            kani::assert(r[i] & 3 != t & 3, "C16.partition.right_does_not");
        }
        if v[i] & 3 == t & 3 {
            cnt_src += 1;
        }
        i += 1;
    }
    cnt_l = l.len();
    kani::assert(cnt_l == cnt_src, "C16.partition.exactly_the_matching_elements");
    // multiset equality through a witness value: the number of occurrences of w is preserved
    let w: u8 = kani::any();
    let (mut a_cnt, mut b_cnt) = (0usize, 0usize);
    let mut i = 0;
    while i < len {
        if v[i] == w {
            a_cnt += 1;
        }
        if i < l.len() && l[i] == w {
            b_cnt += 1;
        }
        if i < r.len() && r[i] == w {
            b_cnt += 1;
        }
        i += 1;
    }
    kani::assert(a_cnt == b_cnt, "C16.partition.each_element_exactly_once");
    core::mem::forget(l);
    core::mem::forget(r);

    // map_in_place (same layout): element count and order kept
    let mut buf = [MaybeUninit::uninit(); N];
    let b = mk_box(&mut buf, &v, len);
    let base = b.as_ptr() as usize;
    let mapped: BumpBox<'_, [u8]> = b.map_in_place(|e| e ^ t);
    kani::assert(mapped.len() == len && mapped.as_ptr() as usize == base, "C16.map_in_place.count_and_place");
    let mut i = 0;
    while i < len {
        kani::assert(mapped[i] == v[i] ^ t, "C16.map_in_place.order");
        i += 1;
    }
    core::mem::forget(mapped);

    // map_in_place to a smaller layout (u16 -> u8)
    let mut buf16 = [MaybeUninit::<u16>::uninit(); N];
    let mut i = 0;
    while i < len {
        buf16[i] = MaybeUninit::new(v[i] as u16 * 3);
        i += 1;
    }
    let b16: BumpBox<'_, [u16]> = unsafe { BumpBox::from_raw(NonNull::slice_from_raw_parts(NonNull::new_unchecked(buf16.as_mut_ptr().cast::<u16>()), len)) };
    let m8: BumpBox<'_, [u8]> = b16.map_in_place(|e| (e / 3) as u8);
    kani::assert(m8.len() == len, "C16.map_in_place_smaller.count");
    let mut i = 0;
    while i < len {
        kani::assert(m8[i] == v[i], "C16.map_in_place_smaller.order");
        i += 1;
    }
    core::mem::forget(m8);

    // into_flattened: [[u8; 2]] of len/2 arrays
    let pairs = len / 2;
    let mut bufp = [MaybeUninit::<[u8; 2]>::uninit(); 3];
    let mut i = 0;
    while i < pairs {
        bufp[i] = MaybeUninit::new([v[2 * i], v[2 * i + 1]]);
        i += 1;
    }
    let bp: BumpBox<'_, [[u8; 2]]> = unsafe { BumpBox::from_raw(NonNull::slice_from_raw_parts(NonNull::new_unchecked(bufp.as_mut_ptr().cast::<[u8; 2]>()), pairs)) };
    let flat = bp.into_flattened();
    kani::assert(flat.len() == 2 * pairs, "C16.into_flattened.count");
    let mut i = 0;
    while i < 2 * pairs {
        kani::assert(flat[i] == v[i], "C16.into_flattened.order");
        i += 1;
    }
    core::mem::forget(flat);
    kani::cover!(cnt_src > 0 && cnt_src < len || len < 2, "partition-non-trivial");
}

// ------------------------------------------------------------------------------------------ C06, concrete shapes

fn tok_box<'a>(buf: &'a mut [MaybeUninit<Tok>; 5], len: usize) -> BumpBox<'a, [Tok]> {
    unsafe { DROPS = [0; 5] };
    let mut i = 0;
    while i < len {
        buf[i] = MaybeUninit::new(Tok(i as u8));
        i += 1;
    }
    unsafe { BumpBox::from_raw(NonNull::slice_from_raw_parts(NonNull::new_unchecked(buf.as_mut_ptr().cast::<Tok>()), len)) }
}

fn all_dropped_once(len: usize) -> bool {
    let mut ok = true;
    let mut i = 0;
    while i < 5 {
        ok = ok && unsafe { DROPS[i] } == (if i < len { 1 } else { 0 });
        i += 1;
    }
    ok
}

/// split_off / drain (consumed k elements) / dedup_by / extract_if for every range of a drop-counting slice
pub(crate) fn drops_every_range(len: usize) {
    let mut lo = 0;
    while lo <= len {
        let mut hi = lo;
        while hi <= len {
            // split_off, drop both parts in either order
            let mut buf: [MaybeUninit<Tok>; 5] = [const { MaybeUninit::uninit() }; 5];
            let mut b = tok_box(&mut buf, len);
            let part = b.split_off(lo..hi);
            let first: bool = kani::any();
            if first {
                drop(part);
                drop(b);
            } else {
                drop(b);
                drop(part);
            }
            kani::assert(all_dropped_once(len), "C06.split_off.every_value_dropped_exactly_once");
            // drain, consume `take` elements from the front, drop the drain, drop the rest
            let mut take = 0;
            while take <= hi - lo {
                let mut buf: [MaybeUninit<Tok>; 5] = [const { MaybeUninit::uninit() }; 5];
                let mut b = tok_box(&mut buf, len);
                {
                    let mut d = b.drain(lo..hi);
                    let mut k = 0;
                    while k < take {
                        drop(d.next());
                        k += 1;
                    }
                }
                kani::assert(b.len() == len - (hi - lo), "C08.drain.rest_length");
                drop(b);
                kani::assert(all_dropped_once(len), "C06.drain.every_value_dropped_exactly_once");
                take += 1;
            }
            // drain, take `take` elements from the BACK, then keep_rest(): the un-yielded elements return to the slice
            let mut take = 0;
            while take <= hi - lo {
                let mut buf: [MaybeUninit<Tok>; 5] = [const { MaybeUninit::uninit() }; 5];
                let mut b = tok_box(&mut buf, len);
                {
                    let mut d = b.drain(lo..hi);
                    let mut k = 0;
                    while k < take {
                        drop(d.next_back());
                        k += 1;
                    }
                    d.keep_rest();
                }
                kani::assert(b.len() == len - take, "C08.drain_keep_rest.length");
                // the kept elements are in order: head, un-yielded, tail
                let mut q = 0;
                while q < b.len() {
                    let expect = if q < hi - take { q } else { q + take };
                    kani::assert(b[q].0 as usize == expect, "C08.drain_keep_rest.order");
                    q += 1;
                }
                drop(b);
                kani::assert(all_dropped_once(len), "C06.drain_keep_rest.every_value_dropped_exactly_once");
                take += 1;
            }
            hi += 1;
        }
        lo += 1;
    }
    // extract_if (partially consumed) and dedup_by with a symbolic predicate
    let keep: u8 = kani::any();
    let mut buf: [MaybeUninit<Tok>; 5] = [const { MaybeUninit::uninit() }; 5];
    let mut b = tok_box(&mut buf, len);
    {
        let mut e = b.extract_if(|t| t.0 & 1 == keep & 1);
        let consume: bool = kani::any();
        if consume {
            drop(e.next());
        }
    }
    drop(b);
    kani::assert(all_dropped_once(len), "C06.extract_if.every_value_dropped_exactly_once");
    let mut buf: [MaybeUninit<Tok>; 5] = [const { MaybeUninit::uninit() }; 5];
    let mut b = tok_box(&mut buf, len);
    b.dedup_by(|x, y| (x.0 ^ y.0) & keep == 0);
    drop(b);
    kani::assert(all_dropped_once(len), "C06.dedup_by.every_value_dropped_exactly_once");
    kani::cover!(true, "all-ranges-done");
}

// ------------------------------------------------------------------------------------------ C06, zero-sized elements

pub(crate) static mut ZDROPS: usize = 0;

pub(crate) struct Z;

impl Drop for Z {
    fn drop(&mut self) {
        unsafe { ZDROPS += 1 };
    }
}

fn zst_box(len: usize) -> BumpBox<'static, [Z]> {
    unsafe { ZDROPS = 0 };
    unsafe { BumpBox::from_raw(NonNull::slice_from_raw_parts(NonNull::<Z>::dangling(), len)) }
}

/// Zero-sized elements have no identity, so "exactly once" is "the number of drops equals the number of
/// elements": drain (consumed k from the front or the back, then dropped), truncate, pop, split_off, clear, into_iter.
pub(crate) fn zst_drops_every_range(len: usize) {
    let mut lo = 0;
    while lo <= len {
        let mut hi = lo;
        while hi <= len {
            // The drain is dropped without being consumed: `next()` on a zero-sized element type goes through
            // `mem::zeroed::<Z>()`, for which CBMC's memset model reports a spurious "destination region writeable"
            // failure (zero bytes into a zero-sized local), so consumption of ZST iterators cannot be exercised under Kani.
            {
                let mut b = zst_box(len);
                {
                    let d = b.drain(lo..hi);
                    kani::assert(d.len() == hi - lo, "C08.zst_drain.length");
                }
                kani::assert(b.len() == len - (hi - lo), "C08.zst_drain.rest_length");
                kani::assert(unsafe { ZDROPS } == hi - lo, "C06.zst_drain.drained_elements_dropped_exactly_once");
                drop(b);
                kani::assert(unsafe { ZDROPS } == len, "C06.zst_drain.every_element_dropped_exactly_once");
            }
            // split_off
            let mut b = zst_box(len);
            let part = b.split_off(lo..hi);
            kani::assert(part.len() == hi - lo && b.len() == len - (hi - lo), "C16.zst_split_off.lengths_add_up");
            drop(part);
            drop(b);
            kani::assert(unsafe { ZDROPS } == len, "C06.zst_split_off.every_element_dropped_exactly_once");
            hi += 1;
        }
        // truncate to lo, pop, then drop
        let mut b = zst_box(len);
        b.truncate(lo);
        kani::assert(unsafe { ZDROPS } == len - lo, "C06.zst_truncate.dropped_the_tail_once");
        drop(b);
        kani::assert(unsafe { ZDROPS } == len, "C06.zst_truncate_pop.every_element_dropped_exactly_once");
        // into_iter dropped unconsumed (see the note on `next()` above)
        let b = zst_box(len);
        let it = b.into_iter();
        drop(it);
        kani::assert(unsafe { ZDROPS } == len, "C06.zst_into_iter.every_element_dropped_exactly_once");
        lo += 1;
    }
    kani::cover!(true, "all-ranges-done");
}

macro_rules! len_inst {
    ($f:ident: $($name:ident = $len:literal),*) => {
        $(
            #[kani::proof]
            #[kani::unwind(9)]
            pub(crate) fn $name() {
                $f($len);
            }
        )*
    };
}
len_inst!(drain_every_range: drain_all_ranges_len2 = 2, drain_all_ranges_len3 = 3, drain_all_ranges_len4 = 4);
len_inst!(index_ops_every_index: index_ops_len0 = 0, index_ops_len2 = 2, index_ops_len3 = 3, index_ops_len5 = 5);
len_inst!(partition_map_flatten: partition_map_flatten_len3 = 3, partition_map_flatten_len4 = 4, partition_map_flatten_len6 = 6);
len_inst!(drops_every_range: drops_all_ranges_len2 = 2, drops_all_ranges_len3 = 3, drops_all_ranges_len4 = 4);
len_inst!(zst_drops_every_range: zst_drops_all_ranges_len2 = 2, zst_drops_all_ranges_len3 = 3, zst_drops_all_ranges_len5 = 5);

