// Corollaries used by C13 (reclaiming the newest allocation) and C18 (changing the minimum
// alignment), over the contracts of bump_up / bump_down (bumping) and align_pos (libhelpers).
verus! {

pub mod c13 {
    use vstd::prelude::*;
    use super::spec::*;
    use super::bumping::*;
    use super::libhelpers::spec_align_pos;

    broadcast use {super::lem::kernel_arith, super::lem::lemma_arith};

    /// C13 upward: after a successful bump of a layout whose size is a multiple of the minimum
    /// alignment the block ends exactly at the new position (so `is_last` recognises it), setting
    /// the position back to align_pos(ptr) -- what deallocate does -- restores the old start of
    /// the free range or a position from which the same request returns the same address.
    pub proof fn realloc_same_address_up(p: BumpProps, r: Option<BumpUp>)
        requires
            props_valid(p, true), bump_up_post(p, r), r is Some,
            aligned(lsize(p.layout), p.min_align as int),
        ensures ({
            let ptr = r->0.ptr as int; let m = p.min_align as int;
            let pos2 = spec_align_pos(true, m, ptr);
            &&& r->0.new_pos as int == ptr + lsize(p.layout)
            &&& pos2 == ptr
            &&& p.start <= pos2 <= p.end
            &&& aligned(pos2, m)
            &&& spec_bump_up(pos2, p.end as int, lsize(p.layout), lalign(p.layout), m)
                  == Some((ptr, r->0.new_pos as int))
        })
    {
        let ptr = r->0.ptr as int; let m = p.min_align as int; let a = lalign(p.layout);
        // ptr is a multiple of both a and m
        if a >= m {
            super::lem::weaken(ptr, a, m);
        } else {
            super::lem::weaken(p.start as int, m, a);
            assert(ptr == p.start);
        }
        assert(aligned(ptr, m));
        assert(aligned(ptr + lsize(p.layout), m)) by { reveal(aligned); super::lem::mod_add(ptr, lsize(p.layout), m); }
    }

    /// C13 downward.
    pub proof fn realloc_same_address_down(p: BumpProps, r: Option<usize>)
        requires
            props_valid(p, false), bump_down_post(p, r), r is Some,
            aligned(lsize(p.layout), p.min_align as int),
        ensures ({
            let ptr = r->0 as int; let m = p.min_align as int;
            let pos2 = spec_align_pos(false, m, ptr + lsize(p.layout));
            &&& pos2 == ptr + lsize(p.layout)
            &&& p.start <= pos2 <= p.end
            &&& aligned(pos2, m)
            &&& spec_bump_down(p.start as int, pos2, lsize(p.layout), lalign(p.layout), m) == Some(ptr)
        })
    {
        let ptr = r->0 as int; let m = p.min_align as int; let a = lalign(p.layout);
        let big = imax(a, m);
        assert(p2(big));
        assert(aligned(ptr, big));
        super::lem::weaken(ptr, big, m);
        assert(aligned(ptr + lsize(p.layout), m)) by { reveal(aligned); super::lem::mod_add(ptr, lsize(p.layout), m); }
    }
}

pub mod c18 {
    use vstd::prelude::*;
    use super::spec::*;
    use super::libhelpers::spec_align_pos;

    broadcast use {super::lem::kernel_arith, super::lem::lemma_arith};

    /// C18: aligning the position of a well-formed chunk to any supported minimum alignment
    /// yields a multiple of it, moves in bump direction by less than it, stays inside the
    /// content range (whose far end is 16-aligned), and satisfies align_pos' precondition.
    pub proof fn align_pos_in_range(upward: bool, m: int, pos: int, lo: int, hi: int)
        requires
            p2(m), m <= 16, 0 < lo <= pos <= hi <= umax(),
            upward ==> aligned(hi, 16), !upward ==> aligned(lo, 16),
        ensures ({
            let r = spec_align_pos(upward, m, pos);
            &&& aligned(r, m)
            &&& lo <= r <= hi
            &&& upward ==> pos <= r < pos + m
            &&& !upward ==> pos - m < r <= pos
            &&& upward ==> pos + m - 1 <= umax()
            // aligning an aligned position changes nothing (idempotent)
            &&& spec_align_pos(upward, m, r) == r
            // a stricter alignment implies the weaker ones
            &&& forall|k: int| p2(k) && k <= m ==> #[trigger] aligned(r, k)
        })
    {
        super::lem::p2_lits();
        let r = spec_align_pos(upward, m, pos);
        if upward {
            super::lem::weaken(hi, 16, m);
        } else {
            super::lem::weaken(lo, 16, m);
        }
        assert forall|k: int| p2(k) && k <= m implies #[trigger] aligned(r, k) by {
            super::lem::weaken(r, m, k);
        }
    }
}

} // verus!
