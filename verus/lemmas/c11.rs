// Property-level lemmas for C11 (and the corollaries C13/C14 use), stated over the
// *contracts* of bump_up / bump_down / bump_prepare_up / bump_prepare_down
// (bumping::bump_*_post), never over the function bodies.
verus! {

pub mod c11 {
    use vstd::prelude::*;
    use core::ops::Range;
    use super::spec::*;
    use super::bumping::*;

    broadcast use {super::lem::kernel_arith, super::lem::lemma_arith};

    /// C11 upward, success: aligned, nearest to the position, inside the range, new position
    /// inside the range, not before the end of the block, multiple of the minimum alignment.
    pub proof fn c11_up_some(p: BumpProps, r: Option<BumpUp>)
        requires props_valid(p, true), bump_up_post(p, r), r is Some
        ensures ({
            let ptr = r->0.ptr as int; let np = r->0.new_pos as int;
            let size = lsize(p.layout); let align = lalign(p.layout);
            &&& aligned(ptr, align)
            &&& p.start <= ptr
            &&& ptr + size <= np <= p.end
            &&& aligned(np, p.min_align as int)
            &&& np - (ptr + size) < p.min_align
            &&& p.start <= p.end                       // never succeeds on the dummy range
            // nearest: no aligned address between the position and the block
            &&& forall|a: int| p.start <= a && #[trigger] aligned(a, align) ==> ptr <= a
        })
    {
    }

    /// C11 upward, tightness: `None` exactly when no aligned block of that size exists in the range.
    pub proof fn c11_up_none(p: BumpProps, r: Option<BumpUp>)
        requires props_valid(p, true), bump_up_post(p, r), r is None
        ensures forall|a: int| p.start <= a && #[trigger] aligned(a, lalign(p.layout)) ==> a + lsize(p.layout) > p.end
    {
    }

    /// C11: the result does not depend on the (truthful) hints.
    pub proof fn c11_up_hints(p: BumpProps, q: BumpProps, r: Option<BumpUp>, s: Option<BumpUp>)
        requires
            props_valid(p, true), props_valid(q, true), bump_up_post(p, r), bump_up_post(q, s),
            p.start == q.start, p.end == q.end, p.min_align == q.min_align, p.layout == q.layout,
        ensures
            r is Some <==> s is Some,
            r is Some ==> r->0.ptr == s->0.ptr && r->0.new_pos == s->0.new_pos,
    {
    }

    /// C11 downward, success.  The new position *is* the block start, so it has to satisfy
    /// both alignments; "nearest" is therefore among addresses aligned to max(align, min_align).
    pub proof fn c11_down_some(p: BumpProps, r: Option<usize>)
        requires props_valid(p, false), bump_down_post(p, r), r is Some
        ensures ({
            let ptr = r->0 as int;
            let size = lsize(p.layout); let align = lalign(p.layout); let m = imax(align, p.min_align as int);
            &&& aligned(ptr, align)
            &&& aligned(ptr, p.min_align as int)
            &&& p.start <= ptr
            &&& ptr + size <= p.end
            &&& ptr != 0
            &&& p.start <= p.end
            &&& forall|a: int| a + size <= p.end && #[trigger] aligned(a, m) ==> a <= ptr
        })
    {
        let m = imax(lalign(p.layout), p.min_align as int);
        assert(p2(m));
        assert(aligned(r->0 as int, m));
    }

    /// C11 downward, tightness w.r.t. the *requested* alignment alone: because the range start
    /// is 16-aligned, an `align`-aligned block fits iff a max(align,min_align)-aligned one does.
    pub proof fn c11_down_none(p: BumpProps, r: Option<usize>)
        requires props_valid(p, false), bump_down_post(p, r), r is None
        ensures forall|a: int| p.start <= a && #[trigger] aligned(a, lalign(p.layout)) ==> a + lsize(p.layout) > p.end
    {
        let size = lsize(p.layout); let align = lalign(p.layout); let m = imax(align, p.min_align as int);
        assert(p2(m));
        assert forall|a: int| p.start <= a && #[trigger] aligned(a, align) implies a + size > p.end by {
            if a + size <= p.end {
                // then the range is regular and up(start, m) fits as well
                let s = up(p.start as int, m);
                assert(p.start <= p.end);
                if m <= 16 {
                    assert(aligned(p.start as int, m));
                    assert(s == p.start);
                } else {
                    // m == align > 16 >= min_align
                    assert(m == align);
                    assert(s <= a);
                }
                assert(s + size <= p.end);
                assert(s <= down(p.end - size, m));
            }
        }
    }

    pub proof fn c11_down_hints(p: BumpProps, q: BumpProps, r: Option<usize>, s: Option<usize>)
        requires
            props_valid(p, false), props_valid(q, false), bump_down_post(p, r), bump_down_post(q, s),
            p.start == q.start, p.end == q.end, p.min_align == q.min_align, p.layout == q.layout,
        ensures r == s,
    {
    }

    /// C11 prepare, upward: the largest sub-range with aligned ends; at least the request.
    pub proof fn c11_prepare_up(p: BumpProps, r: Option<Range<usize>>)
        requires props_valid(p, true), aligned(lsize(p.layout), lalign(p.layout)), bump_prepare_up_post(p, r)
        ensures ({
            let size = lsize(p.layout); let align = lalign(p.layout);
            &&& r is Some ==> {
                let s = r->0.start as int; let e = r->0.end as int;
                &&& aligned(s, align) && aligned(e, align)
                &&& p.start <= s && e <= p.end && e - s >= size
                &&& forall|a: int| p.start <= a && #[trigger] aligned(a, align) ==> s <= a
                &&& forall|b: int| b <= p.end && #[trigger] aligned(b, align) ==> b <= e
            }
            &&& r is None ==> forall|a: int| p.start <= a && #[trigger] aligned(a, align) ==> a + size > p.end
        })
    {
        let size = lsize(p.layout); let align = lalign(p.layout);
        if r is Some {
            let s = up(p.start as int, align);
            // s + size is a multiple of align that is <= end, hence <= down(end, align)
            assert(aligned(s + size, align)) by { reveal(aligned); super::lem::mod_add(s, size, align); }
        }
    }

    pub proof fn c11_prepare_down(p: BumpProps, r: Option<Range<usize>>)
        requires props_valid(p, false), aligned(lsize(p.layout), lalign(p.layout)), bump_prepare_down_post(p, r)
        ensures ({
            let size = lsize(p.layout); let align = lalign(p.layout);
            &&& r is Some ==> {
                let s = r->0.start as int; let e = r->0.end as int;
                &&& aligned(s, align) && aligned(e, align)
                &&& p.start <= s && e <= p.end && e - s >= size
                &&& forall|a: int| p.start <= a && #[trigger] aligned(a, align) ==> s <= a
                &&& forall|b: int| b <= p.end && #[trigger] aligned(b, align) ==> b <= e
            }
            &&& r is None ==> forall|a: int| p.start <= a && #[trigger] aligned(a, align) ==> a + size > p.end
        })
    {
        let size = lsize(p.layout); let align = lalign(p.layout);
        let e = down(p.end as int, align);
        assert(aligned(e - size, align)) by { reveal(aligned); super::lem::mod_add(e, size, align); }
        if r is None {
            assert forall|a: int| p.start <= a && #[trigger] aligned(a, align) implies a + size > p.end by {
                if a + size <= p.end {
                    assert(aligned(a + size, align)) by { reveal(aligned); super::lem::mod_add(a, size, align); }
                    assert(a + size <= e);
                }
            }
        }
    }

    /// C14 corollary: on the dummy range (capacity -16) every request fails, for every layout.
    pub proof fn dummy_range_fails(p: BumpProps)
        requires p.start == p.end + 16, valid_layout(p.layout), p2(p.min_align as int)
        ensures
            spec_bump_up(p.start as int, p.end as int, lsize(p.layout), lalign(p.layout), p.min_align as int) is None,
            spec_bump_down(p.start as int, p.end as int, lsize(p.layout), lalign(p.layout), p.min_align as int) is None,
            spec_prepare_up(p.start as int, p.end as int, lsize(p.layout), lalign(p.layout)) is None,
            spec_prepare_down(p.start as int, p.end as int, lsize(p.layout), lalign(p.layout)) is None,
    {
        assert(p2(imax(lalign(p.layout), p.min_align as int)));
    }

    // ---- vacuity guards: the preconditions are satisfiable (concrete witnesses)

    pub proof fn witness_props_valid(l: core::alloc::Layout)
        requires lsize(l) == 24, lalign(l) == 8, valid_layout(l)
        ensures
            props_valid(BumpProps { start: 0x1000, end: 0x2000, min_align: 4, layout: l, align_is_const: true, size_is_const: true, size_is_multiple_of_align: true }, true),
            props_valid(BumpProps { start: 0x1000, end: 0x2000, min_align: 4, layout: l, align_is_const: false, size_is_const: false, size_is_multiple_of_align: false }, false),
            props_valid(BumpProps { start: 0x1010, end: 0x1000, min_align: 1, layout: l, align_is_const: false, size_is_const: false, size_is_multiple_of_align: false }, true),
            spec_bump_up(0x1000, 0x2000, 24, 8, 4) == Some((0x1000int, 0x1018int)),
            spec_bump_down(0x1000, 0x2000, 24, 8, 4) == Some(0x1fe8int),
            spec_bump_up(0x1ff0, 0x2000, 24, 8, 4) is None,
    {
        reveal(aligned); reveal(up); reveal(down);
        super::lem::p2_lits();
    }
}

} // verus!
