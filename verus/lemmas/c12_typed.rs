// Property-level lemma for C12 / C05 over the contracts of src/chunk/size.rs (the typed layer):
// the chain ChunkSize::<A, S>::from_capacity -> base allocator grant -> align_allocation_size -> first bump,
// for EVERY allocator type A and settings type S.
use vstd::prelude::*;

verus! {

pub mod c12_typed {
    use vstd::prelude::*;
    use core::alloc::Layout;
    use core::num::NonZeroUsize;
    use super::spec::*;
    use super::bumping::*;
    use super::size_config::*;
    use super::chunk_size::*;

    broadcast use {super::lem::kernel_arith, super::lem::p2_mult, super::lem::layout_step};

    /// C12: the chunk that `ChunkSize::<A, S>::from_capacity(l)` sizes - whatever the base allocator grants for it
    /// (at least that size), recorded through `ChunkSize::<A, S>::align_allocation_size` - has room for `l`.
    /// C05: the recorded size lies between the requested and the granted size.
    pub proof fn typed_fresh_chunk_fits<A, S: BumpAllocatorSettings>(
        l: Layout, r: Option<ChunkSize<A, S>>, granted: usize, csize: usize, ptr: usize, m: int,
    )
        requires
            valid_layout(l),
            from_capacity_post::<A, S>(l, r), r is Some,
            granted as int >= r->0.sz(),
            exists|c: ChunkSizeConfig| #[trigger] cfg_of::<A, S>(c) && align_size_post(c, granted, csize),
            aligned(ptr as int, talign::<ChunkHeader<A>>()), ptr != 0, ptr as int + granted as int <= umax(),
            p2(m), m <= 16,
        ensures
            r->0.sz() <= csize as int <= granted as int,
            aligned(csize as int, 16),
            csize as int >= tsize::<ChunkHeader<A>>(),
            S::UP ==> spec_bump_up(ptr + tsize::<ChunkHeader<A>>(), ptr + csize, lsize(l), lalign(l), m) is Some,
            !S::UP ==> spec_bump_down(ptr as int, ptr + csize - tsize::<ChunkHeader<A>>(), lsize(l), lalign(l), m) is Some,
    {
        let c1 = choose|c: ChunkSizeConfig| #[trigger] cfg_of::<A, S>(c) && {
            let h = hint_for_bytes(c, lsize(l) + pad_for(c, l));
            if h > umax() { r is None } else { calc_size_from_hint_post(c, eff_hint::<S>(h as usize), raw_opt(r)) }
        };
        let c2 = choose|c: ChunkSizeConfig| #[trigger] cfg_of::<A, S>(c) && align_size_post(c, granted, csize);
        assert(size_align(c1) == size_align(c2));
        assert(align_size_post(c1, granted, csize));
        let h = hint_for_bytes(c1, lsize(l) + pad_for(c1, l));
        assert(h <= umax());
        assert(h >= 0) by {
            assert(hsize(c1) >= 32);
        }
        let hint_r: Option<usize> = Some(h as usize);
        assert(calc_hint_from_capacity_post(c1, l, hint_r));
        super::c12::fresh_chunk_fits(c1, l, hint_r, eff_hint::<S>(h as usize), raw_opt(r), granted, csize, ptr, m);
    }
}

} // verus!
