// Property-level lemmas for C12 / C05 / C10 over the contracts of src/chunk/size_config.rs.
verus! {

pub mod c12 {
    use vstd::prelude::*;
    use core::alloc::Layout;
    use core::num::NonZeroUsize;
    use super::spec::*;
    use super::size_config::*;
    use super::bumping::{spec_bump_up, spec_bump_down, spec_prepare_up, spec_prepare_down};

    broadcast use {super::lem::kernel_arith, super::lem::lemma_arith};

    /// x a multiple of b, b <= a: the next multiple of a is at most a - b away
    pub proof fn up_from_coarser(x: int, a: int, b: int)
        requires aligned(x, b), p2(a), p2(b), b <= a
        ensures up(x, a) <= x + a - b
    {
        let u = up(x, a);
        reveal(aligned);
        super::lem::up_props(x, a);
        super::lem::weaken(u, a, b);
        super::lem::p2_divides(a, b);
        // a - (u - x) is a positive multiple of b
        super::lem::mod_add(u, x, b);
        super::lem::mod_add(a, u - x, b);
        if a - (u - x) < b {
            vstd::arithmetic::div_mod::lemma_small_mod((a - (u - x)) as nat, b as nat);
        }
    }

    /// x a multiple of b, b <= a, y >= x + a - b: the greatest multiple of a below y is >= x
    pub proof fn down_from_coarser(x: int, y: int, a: int, b: int)
        requires aligned(x, b), p2(a), p2(b), b <= a, y >= x + a - b
        ensures down(y, a) >= x
    {
        up_from_coarser(x, a, b);
        // up(x, a) is a multiple of a that is <= y
        assert(aligned(up(x, a), a));
        assert(up(x, a) <= y);
    }

    /// C12: whatever the base allocator grants (>= the requested size), the chunk laid out
    /// in the granted block has room for the layout that caused it -- for every header
    /// layout, both directions, every minimum alignment, every additional size hint.
    /// Also C05: the chunk size used for the later release lies between requested and granted.
    pub proof fn fresh_chunk_fits(
        c: ChunkSizeConfig, l: Layout, hint_r: Option<usize>, hint: usize, size_r: Option<NonZeroUsize>,
        granted: usize, csize: usize, ptr: usize, m: int,
    )
        requires
            cfg_valid(c), valid_layout(l),
            calc_hint_from_capacity_post(c, l, hint_r), hint_r is Some, hint >= hint_r->0,
            calc_size_from_hint_post(c, hint, size_r), size_r is Some,
            granted as int >= nz(size_r->0), align_size_post(c, granted, csize),
            aligned(ptr as int, halign(c)), ptr != 0, ptr as int + granted as int <= umax(),
            p2(m), m <= 16,
        ensures
            nz(size_r->0) <= csize as int <= granted as int,
            aligned(csize as int, 16),
            !c.up ==> aligned(csize as int, halign(c)),
            csize as int >= hsize(c),
            c.up ==> spec_bump_up(ptr + hsize(c), ptr + csize, lsize(l), lalign(l), m) is Some,
            !c.up ==> spec_bump_down(ptr as int, ptr + csize - hsize(c), lsize(l), lalign(l), m) is Some,
            c.up && aligned(lsize(l), lalign(l)) ==> spec_prepare_up(ptr + hsize(c), ptr + csize, lsize(l), lalign(l)) is Some,
            !c.up && aligned(lsize(l), lalign(l)) ==> spec_prepare_down(ptr as int, ptr + csize - hsize(c), lsize(l), lalign(l)) is Some,
    {
        let s = nz(size_r->0);
        let h = hsize(c); let ha = halign(c);
        let sa = size_align(c);
        let a = lalign(l); let sz = lsize(l);
        let pad = pad_for(c, l);
        assert(p2(sa));
        // csize = down(granted, sa) >= s because s is a multiple of sa
        assert(csize as int >= s);
        assert(aligned(csize as int, sa));
        // what the hint guarantees
        let bytes = sz + pad;
        assert(hint_for_bytes(c, bytes) >= h + bytes + 32) by {
            if c.up { assert(up(16, ha) >= 16); } else { assert(up(16 + bytes, ha) >= 16 + bytes); }
        }
        assert(s >= h + bytes + 16);
        assert(csize as int >= h + sz + pad + 16);
        // header start / content start are multiples of the header alignment
        assert(aligned(ptr + h, ha)) by { reveal(aligned); super::lem::mod_add(ptr as int, h, ha); }
        if c.up {
            let start = ptr + h;
            let end = ptr + csize;
            if a <= ha {
                super::lem::weaken(start, ha, a);
                assert(up(start, a) == start);
            } else {
                up_from_coarser(start, a, ha);
                assert(up(start, a) <= start + pad);
            }
            assert(up(start, a) + sz <= end);
        } else {
            let start = ptr as int;
            let end = ptr + csize - h;
            let big = imax(a, m);
            assert(p2(big));
            if big <= ha {
                super::lem::weaken(start, ha, big);
                assert(down(end - sz, big) >= start);
            } else {
                // big == a > ha >= 16 >= m
                assert(big == a);
                down_from_coarser(start, end - sz, a, ha);
            }
            if a <= ha {
                super::lem::weaken(start, ha, a);
                if aligned(sz, a) {
                    assert(aligned(start + sz, a)) by { reveal(aligned); super::lem::mod_add(start, sz, a); }
                    assert(down(end, a) >= start + sz);
                }
            } else {
                if aligned(sz, a) {
                    up_from_coarser(start, a, ha);
                    let u = up(start, a);
                    assert(aligned(u + sz, a)) by { reveal(aligned); super::lem::mod_add(u, sz, a); }
                    assert(u + sz <= end);
                    assert(down(end, a) >= u + sz);
                }
            }
        }
    }

    /// C12 / C10: a chunk appended with the doubled size as hint is never smaller than twice
    /// the previous one less 16 bytes -- in particular strictly larger than the previous one.
    pub proof fn grow_doubles(c: ChunkSizeConfig, prev: int, hint: usize, size_r: Option<NonZeroUsize>)
        requires
            cfg_valid(c), calc_size_from_hint_post(c, hint, size_r), size_r is Some,
            hint as int >= 2 * prev, prev >= 32, aligned(prev, 16),
        ensures
            nz(size_r->0) >= 2 * prev - 16,
            nz(size_r->0) > prev,
    {
    }

    /// C07 / C12: a failing size computation is exactly a mathematical overflow (never a wrap).
    pub proof fn size_overflow_is_error(c: ChunkSizeConfig, hint: usize, size_r: Option<NonZeroUsize>)
        requires cfg_valid(c), calc_size_from_hint_post(c, hint, size_r), size_r is None
        ensures imax(hint as int, min_hint(c)) + size_step(c) > umax() + 1,
    {
        let h = imax(hint as int, min_hint(c));
        assert(p2(size_step(c)));
        assert(up(h, size_step(c)) < h + size_step(c));
    }

    pub proof fn witness_cfg(c: ChunkSizeConfig)
        requires
            c.up, lsize(c.assumed_malloc_overhead_layout) == 16, lalign(c.assumed_malloc_overhead_layout) == 8,
            lsize(c.chunk_header_layout) == 32, lalign(c.chunk_header_layout) == 16,
        ensures cfg_valid(c), min_hint(c) == 48, hint_for_bytes(c, 100) == 164,
    {
        reveal(aligned); reveal(up); reveal(down);
        super::lem::p2_lits();
    }
}

} // verus!
