// prelude.rs -- spec vocabulary, external type specifications and the lemma library
// shared by every extracted module.  Nothing in this file is code of the repository.
//
// TRUSTED ITEMS (each is echoed into the evidence by vf/scan_assumptions.py):
//   * external_type_specification for core::alloc::Layout
//   * assume_specification for Layout::size, Layout::align (they carry core's Layout invariant)
//     and usize::checked_next_power_of_two
//   * vstd's own specifications of NonZero::new/get, wrapping_sub, saturating_add/sub,
//     checked_add, Ord::max on usize, Range
//   * `global size_of usize == 8` (64-bit targets only)
#![allow(unused_imports, unused_variables, dead_code, unused_mut, unused_parens, unused_braces)]
use vstd::prelude::*;

verus! {

global size_of usize == 8;

pub mod spec {
    use vstd::prelude::*;
    use vstd::arithmetic::power2::*;
    use core::alloc::Layout;
    use core::num::NonZeroUsize;

    // ---------------------------------------------------------------- external types

    #[verifier::external_type_specification]
    #[verifier::external_body]
    pub struct ExLayout(Layout);

    pub uninterp spec fn lsize(l: Layout) -> int;
    pub uninterp spec fn lalign(l: Layout) -> int;

    /// value of a NonZeroUsize (vstd's own specification of NonZero::new / NonZero::get is used)
    pub open spec fn nz(n: NonZeroUsize) -> int {
        <usize as vstd::std_specs::convert::FromSpec<NonZeroUsize>>::from_spec(n) as int
    }

    /// `a` is a power of two representable in usize.
    pub open spec fn is_pow2u(a: int) -> bool {
        exists|k: nat| k < 64 && a == #[trigger] pow2(k)
    }

    /// Same as `is_pow2u`, hidden from the solver (lemmas in `lem` reveal it).
    #[verifier::opaque]
    pub open spec fn p2(a: int) -> bool { is_pow2u(a) }

    /// core's Layout invariant: align is a power of two and size rounded up to align fits isize.
    pub open spec fn valid_layout(l: Layout) -> bool {
        &&& p2(lalign(l))
        &&& 0 <= lsize(l)
        &&& lsize(l) + lalign(l) - 1 <= isize::MAX as int
    }

    pub assume_specification[Layout::size](l: &Layout) -> (r: usize)
        ensures r as int == lsize(*l), valid_layout(*l);

    pub assume_specification[Layout::align](l: &Layout) -> (r: usize)
        ensures r as int == lalign(*l), valid_layout(*l);

    /// usize::checked_next_power_of_two: the least power of two >= x, None iff that exceeds usize.
    pub assume_specification[usize::checked_next_power_of_two](x: usize) -> (r: Option<usize>)
        ensures
            (r is None <==> x as int > 0x8000_0000_0000_0000),
            r is Some ==> p2(r->0 as int) && r->0 >= x && (r->0 as int) < 2 * imax(x as int, 1);

    // ---------------------------------------------------------------- alignment vocabulary
    // All three are opaque: the solver sees them only through the broadcast lemmas of `lem`.

    /// x is a multiple of a
    #[verifier::opaque]
    pub open spec fn aligned(x: int, a: int) -> bool { x % a == 0 }
    /// greatest multiple of `a` that is <= x
    #[verifier::opaque]
    pub open spec fn down(x: int, a: int) -> int { x - x % a }
    /// least multiple of `a` that is >= x
    #[verifier::opaque]
    pub open spec fn up(x: int, a: int) -> int { (x + a - 1) - (x + a - 1) % a }

    pub open spec fn imax(a: int, b: int) -> int { if a > b { a } else { b } }
    pub open spec fn imin(a: int, b: int) -> int { if a < b { a } else { b } }
    pub open spec fn umax() -> int { 0xffff_ffff_ffff_ffff }
    pub open spec fn smax() -> int { 0x7fff_ffff_ffff_ffff }
}

pub mod lem {
    use vstd::prelude::*;
    use vstd::arithmetic::power2::*;
    use vstd::arithmetic::div_mod::*;
    use vstd::arithmetic::mul::*;
    use vstd::bits::*;
    use super::spec::*;

    // ------------------------------------------------------------ plain lemmas (manual proofs)

    pub proof fn p2_witness(a: int) -> (k: nat)
        requires p2(a)
        ensures k < 64, a == pow2(k), 1 <= a <= 0x8000_0000_0000_0000
    {
        reveal(p2);
        let k = choose|k: nat| k < 64 && a == #[trigger] pow2(k);
        lemma_pow2_pos(k);
        if k < 63 { lemma_pow2_strictly_increases(k, 63); }
        lemma2_to64(); lemma2_to64_rest();
        k
    }

    pub proof fn p2_intro(k: nat)
        requires k < 64
        ensures p2(pow2(k) as int)
    { reveal(p2); }

    pub proof fn p2_small(a: int)
        requires p2(a), a <= 16
        ensures a == 1 || a == 2 || a == 4 || a == 8 || a == 16
    {
        let k = p2_witness(a);
        lemma2_to64();
        if k > 4 { lemma_pow2_strictly_increases(4, k); }
    }

    pub proof fn p2_lits()
        ensures p2(1), p2(2), p2(4), p2(8), p2(16), p2(32), p2(64), p2(0x1000), p2(0x8000_0000_0000_0000)
    {
        lemma2_to64(); lemma2_to64_rest();
        p2_intro(0); p2_intro(1); p2_intro(2); p2_intro(3); p2_intro(4); p2_intro(5); p2_intro(6); p2_intro(12); p2_intro(63);
    }

    /// the smaller of two powers of two divides the bigger one
    pub proof fn p2_divides(a: int, b: int)
        requires p2(a), p2(b), b <= a
        ensures a % b == 0
    {
        let i = p2_witness(a); let j = p2_witness(b);
        if j > i { lemma_pow2_strictly_increases(i, j); }
        lemma_pow2_adds(j, (i - j) as nat);
        lemma_mod_multiples_basic(pow2((i - j) as nat) as int, b);
        lemma_mul_is_commutative(pow2((i - j) as nat) as int, b);
    }

    pub proof fn mod_trans(x: int, a: int, b: int)
        requires a > 0, b > 0, x % a == 0, a % b == 0
        ensures x % b == 0
    {
        let r = a / b;
        lemma_fundamental_div_mod(a, b);
        assert(a == b * r);
        lemma_mod_mod(x, b, r);
    }

    pub proof fn mod_add(x: int, y: int, a: int)
        requires a > 0, x % a == 0, y % a == 0
        ensures (x + y) % a == 0, (x - y) % a == 0
    {
        lemma_add_mod_noop(x, y, a);
        lemma_sub_mod_noop(x, y, a);
        lemma_small_mod(0, a as nat);
    }

    pub proof fn down_unique(x: int, y: int, a: int)
        requires a > 0, y % a == 0, y <= x < y + a
        ensures y == x - x % a
    {
        let q = y / a;
        lemma_fundamental_div_mod(y, a);
        lemma_fundamental_div_mod_converse(x, a, q, x - y);
    }

    /// x & m == x % (m+1) for a low-bits mask m
    pub proof fn mask_is_mod(x: usize, m: usize)
        requires p2(m as int + 1)
        ensures (x & m) as int == (x as int) % (m as int + 1)
    {
        let k = p2_witness(m as int + 1);
        lemma_usize_low_bits_mask_is_mod(x, k);
        lemma_pow2_pos(k);
        assert(low_bits_mask(k) == m as int);
    }

    /// 2^64 and 0 are multiples of every power of two
    pub proof fn p2_top(a: int)
        requires p2(a)
        ensures 0x1_0000_0000_0000_0000int % a == 0, 0int % a == 0
    {
        let k = p2_witness(a);
        lemma_pow2_adds(k, (64 - k) as nat);
        lemma2_to64_rest();
        lemma_mod_multiples_basic(pow2((64 - k) as nat) as int, a);
        lemma_mul_is_commutative(pow2((64 - k) as nat) as int, a);
        lemma_small_mod(0, a as nat);
    }

    /// aligned(x, b), a <= b  ==>  x % a == 0   (the un-broadcast form of weakening)
    pub proof fn weaken(x: int, b: int, a: int)
        requires aligned(x, b), p2(a), p2(b), a <= b
        ensures aligned(x, a), x % a == 0
    {
        reveal(aligned);
        let _ = p2_witness(a); let _ = p2_witness(b);
        p2_divides(b, a);
        mod_trans(x, b, a);
    }

    pub proof fn down_props(x: int, a: int)
        requires p2(a)
        ensures down(x, a) <= x < down(x, a) + a, down(x, a) % a == 0
    {
        reveal(down);
        let _ = p2_witness(a);
        lemma_mod_bound(x, a);
        lemma_fundamental_div_mod(x, a);
        lemma_mod_multiples_basic(x / a, a);
        assert(x - x % a == a * (x / a));
        lemma_mul_is_commutative(x / a, a);
    }

    /// every multiple of a that is <= x is <= down(x, a); every multiple >= x is >= up(x, a)
    pub proof fn down_greatest(x: int, y: int, a: int)
        requires p2(a), y % a == 0, y <= x
        ensures y <= down(x, a)
    {
        down_props(x, a);
        let _ = p2_witness(a);
        let d = down(x, a);
        if y > d {
            mod_add(y, d, a);
            lemma_small_mod((y - d) as nat, a as nat);
        }
    }

    pub proof fn up_props(x: int, a: int)
        requires p2(a)
        ensures
            x <= up(x, a) < x + a, up(x, a) % a == 0,
            up(x, a) == down(x + a - 1, a), up(x, a) == down(x - 1, a) + a,
            x % a == 0 ==> up(x, a) == x,
    {
        reveal(up); reveal(down);
        let _ = p2_witness(a);
        down_props(x + a - 1, a);
        down_props(x - 1, a);
        lemma_mod_add_multiples_vanish(x - 1, a);
        if x % a == 0 {
            down_unique(x + a - 1, x, a);
        }
    }

    pub proof fn up_least(x: int, y: int, a: int)
        requires p2(a), y % a == 0, x <= y
        ensures up(x, a) <= y
    {
        up_props(x, a);
        let _ = p2_witness(a);
        let u = up(x, a);
        if u > y {
            mod_add(u, y, a);
            lemma_small_mod((u - y) as nat, a as nat);
        }
    }

    // ------------------------------------------------------------ broadcast layer
    // These are the only facts about p2/aligned/down/up the solver sees inside function bodies.
    // Design rule: no broadcast lemma creates a new `aligned` term except
    // aligned(up(x,a),a) / aligned(down(x,a),a) for up/down terms that already exist, so the
    // set of terms stays finite and small (no matching loops, low and stable rlimit use).

    pub broadcast proof fn b_p2_range(a: int)
        requires #[trigger] p2(a)
        ensures 1 <= a <= 0x8000_0000_0000_0000
    { let _ = p2_witness(a); }

    /// literal powers of two (fires as soon as any p2 term is around)
    pub broadcast proof fn b_p2_lits(a: int)
        ensures #[trigger] p2(a) == p2(a), p2(8), p2(16), p2(0x1000)
    { p2_lits(); }

    /// a power of two is a multiple of every smaller power of two
    /// (goal directed: the `aligned` term must already exist)
    pub broadcast proof fn b_p2_aligned(a: int, b: int)
        requires p2(a), p2(b), b <= a
        ensures #[trigger] aligned(a, b)
    { reveal(aligned); p2_divides(a, b); }

    /// powers of two >= 16 and multiples of them are multiples of 16 (as plain arithmetic)
    pub broadcast proof fn b_p2_mod16(a: int)
        requires #[trigger] p2(a), a >= 16
        ensures a % 16 == 0
    { p2_lits(); p2_divides(a, 16); }

    pub broadcast proof fn b_aligned_mod16(x: int, b: int)
        requires #[trigger] aligned(x, b), p2(b), b >= 16
        ensures x % 16 == 0
    { p2_lits(); weaken(x, b, 16); }

    /// bit idiom:  x & !m  with m = a - 1
    pub broadcast proof fn b_and_not(x: usize, m: usize)
        requires p2(m as int + 1)
        ensures (#[trigger] (x & !m)) as int == down(x as int, m as int + 1)
    {
        reveal(down);
        mask_is_mod(x, m);
        assert(x & !m == x - (x & m)) by(bit_vector);
    }

    /// the same idiom with the operands swapped
    pub broadcast proof fn b_not_and(x: usize, m: usize)
        requires p2(m as int + 1)
        ensures (#[trigger] (!m & x)) as int == down(x as int, m as int + 1)
    {
        b_and_not(x, m);
        assert(!m & x == x & !m) by(bit_vector);
    }

    /// `%` computed by the code
    pub broadcast proof fn b_mod_aligned(x: int, a: int)
        ensures ((#[trigger] (x % a)) == 0) <==> aligned(x, a)
    { reveal(aligned); }

    /// usize -> isize reinterpretation of a value above isize::MAX is negative
    pub broadcast proof fn b_cast_neg(x: usize)
        ensures x > 0x7fff_ffff_ffff_ffffusize ==> (#[trigger] (x as isize)) < 0
    {
        assert(x > 0x7fff_ffff_ffff_ffffusize ==> (x as isize) < 0isize) by(bit_vector);
    }

    pub broadcast proof fn b_down(x: int, a: int)
        requires p2(a)
        ensures
            (#[trigger] down(x, a)) <= x < down(x, a) + a,
            aligned(down(x, a), a),
            x >= 0x1_0000_0000_0000_0000 ==> down(x, a) >= 0x1_0000_0000_0000_0000,
            x >= 0 ==> down(x, a) >= 0,
    {
        reveal(aligned);
        down_props(x, a);
        p2_top(a);
        if x >= 0x1_0000_0000_0000_0000 { down_greatest(x, 0x1_0000_0000_0000_0000, a); }
        if x >= 0 { down_greatest(x, 0, a); }
    }

    pub broadcast proof fn b_up(x: int, a: int)
        requires p2(a)
        ensures
            x <= (#[trigger] up(x, a)) < x + a,
            aligned(up(x, a), a),
            up(x, a) == down(x + a - 1, a),
            up(x, a) == down(x - 1, a) + a,
            x <= 0x1_0000_0000_0000_0000 ==> up(x, a) <= 0x1_0000_0000_0000_0000,
            x <= 0 ==> up(x, a) <= 0,
    {
        reveal(aligned);
        up_props(x, a);
        p2_top(a);
        if x <= 0 { up_least(x, 0, a); }
        if x <= 0x1_0000_0000_0000_0000 { up_least(x, 0x1_0000_0000_0000_0000, a); }
    }

    /// x already a multiple of some b >= a: aligning to a is the identity
    pub broadcast proof fn b_up_id(x: int, a: int, b: int)
        requires #[trigger] aligned(x, b), p2(a), p2(b), a <= b
        ensures (#[trigger] up(x, a)) == x
    { weaken(x, b, a); up_props(x, a); }

    pub broadcast proof fn b_down_id(x: int, a: int, b: int)
        requires #[trigger] aligned(x, b), p2(a), p2(b), a <= b
        ensures (#[trigger] down(x, a)) == x
    { weaken(x, b, a); down_props(x, a); down_greatest(x, x, a); }

    /// every multiple y of a that is <= x is <= down(x, a)
    pub broadcast proof fn b_down_greatest(x: int, y: int, a: int)
        requires #[trigger] aligned(y, a), p2(a), y <= x
        ensures y <= #[trigger] down(x, a)
    { weaken(y, a, a); down_greatest(x, y, a); }

    /// up(x, a) is the least multiple of a that is >= x
    pub broadcast proof fn b_up_least(x: int, y: int, a: int)
        requires #[trigger] aligned(y, a), p2(a), x <= y
        ensures (#[trigger] up(x, a)) <= y
    { weaken(y, a, a); up_least(x, y, a); }

    /// the same against a 16-aligned bound (chunk range ends) for alignments <= 16
    pub broadcast proof fn b_down_greatest_16(x: int, y: int, a: int)
        requires #[trigger] aligned(y, 16), p2(a), a <= 16, y <= x
        ensures y <= #[trigger] down(x, a)
    { p2_lits(); weaken(y, 16, a); down_greatest(x, y, a); }

    pub broadcast proof fn b_up_least_16(x: int, y: int, a: int)
        requires #[trigger] aligned(y, 16), p2(a), a <= 16, x <= y
        ensures (#[trigger] up(x, a)) <= y
    { p2_lits(); weaken(y, 16, a); up_least(x, y, a); }

    /// a representable multiple of b is at least a (<= b) below 2^64
    pub broadcast proof fn b_aligned_top(y: int, b: int, a: int)
        requires #[trigger] aligned(y, b), p2(b), #[trigger] p2(a), a <= b, y <= 0xffff_ffff_ffff_ffff
        ensures y + a <= 0x1_0000_0000_0000_0000
    {
        weaken(y, b, a);
        p2_top(a);
        let _ = p2_witness(a);
        let t = 0x1_0000_0000_0000_0000int;
        if t - y < a {
            mod_add(t, y, a);
            lemma_small_mod((t - y) as nat, a as nat);
        }
    }

    pub broadcast proof fn b_aligned_16(x: int)
        ensures (#[trigger] aligned(x, 16)) <==> x % 16 == 0
    { reveal(aligned); }

    /// stepping a multiple by a layout size that is a multiple: the sum/difference is a multiple
    /// (stated on an existing up/down term of a smaller-or-equal alignment; creates no new terms)
    pub broadcast proof fn b_step_up(x: int, l: core::alloc::Layout, z: int, a: int, b: int, c: int)
        requires
            #[trigger] aligned(x, a), #[trigger] aligned(lsize(l), b), p2(a), p2(b), p2(c), c <= a, c <= b,
            z == x + lsize(l) || z == x - lsize(l),
        ensures (#[trigger] up(z, c)) == z
    {
        weaken(x, a, c); weaken(lsize(l), b, c);
        let _ = p2_witness(c);
        mod_add(x, lsize(l), c);
        up_props(z, c);
    }

    pub broadcast proof fn b_step_down(x: int, l: core::alloc::Layout, z: int, a: int, b: int, c: int)
        requires
            #[trigger] aligned(x, a), #[trigger] aligned(lsize(l), b), p2(a), p2(b), p2(c), c <= a, c <= b,
            z == x + lsize(l) || z == x - lsize(l),
        ensures (#[trigger] down(z, c)) == z
    {
        weaken(x, a, c); weaken(lsize(l), b, c);
        let _ = p2_witness(c);
        mod_add(x, lsize(l), c);
        down_props(z, c);
        down_greatest(z, z, c);
    }

    /// multiples of a bigger power of two are multiples of a smaller one.
    /// Broad trigger: only for the lemma modules, never inside extracted bodies.
    pub broadcast proof fn b_weaken(x: int, b: int, a: int)
        requires #[trigger] aligned(x, b), p2(b), #[trigger] p2(a), a <= b
        ensures aligned(x, a)
    { weaken(x, b, a); }

    pub broadcast proof fn b_p2_imax(a: int, b: int)
        requires p2(a), p2(b)
        ensures #[trigger] p2(imax(a, b))
    {}

    /// weakening towards an `aligned` term that already exists (e.g. in the goal)
    pub broadcast proof fn b_weaken_to(x: int, b: int, a: int)
        requires #[trigger] aligned(x, b), p2(b), p2(a), a <= b
        ensures #[trigger] aligned(x, a)
    { weaken(x, b, a); }

    /// group used inside the bodies of all extracted modules
    pub broadcast group kernel_arith {
        b_p2_range, b_p2_lits, b_and_not, b_not_and, b_mod_aligned, b_cast_neg, b_down, b_up,
        b_up_id, b_down_id, b_down_greatest, b_up_least, b_aligned_16, b_weaken_to,
    }

    /// extra facts for the property-level lemma modules
    pub broadcast group lemma_arith {
        b_weaken, b_p2_imax,
    }

    /// only `bumping` needs size-stepping (cubic trigger)
    pub broadcast group layout_step {
        b_step_up, b_step_down, b_down_greatest_16, b_up_least_16, b_aligned_top,
    }

    /// only `size_config` needs power-of-two sizes being multiples
    pub broadcast group p2_mult {
        b_p2_aligned, b_p2_mod16, b_aligned_mod16,
    }
}

} // verus!
