use vstd::prelude::*;
use core::num::NonZeroUsize;
use super::spec::*;

broadcast use super::lem::kernel_arith;

/// C18: aligning a bump position to `min_align` in bump direction.
pub open spec fn spec_align_pos(upward: bool, min_align: int, pos: int) -> int {
    if upward { up(pos, min_align) } else { down(pos, min_align) }
}
