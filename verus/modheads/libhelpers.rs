use vstd::prelude::*;
use core::alloc::Layout;
use core::num::NonZeroUsize;
use core::ops::Range;
use super::spec::*;
