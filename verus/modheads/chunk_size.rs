use vstd::prelude::*;
use vstd::layout::{size_of as spec_size_of, align_of as spec_align_of};
use core::alloc::Layout;
use core::alloc::LayoutError;
use core::marker::PhantomData;
use core::num::NonZeroUsize;
use super::spec::*;
use super::size_config::*;


pub mod env {
    use vstd::prelude::*;
    use vstd::layout::{size_of as spec_size_of, align_of as spec_align_of};
    use core::alloc::Layout;
    use core::alloc::LayoutError;
    use core::marker::PhantomData;
    use super::super::spec::*;

    // ---- environment of src/chunk/size.rs (nothing below is code of the repository) ----

    /// `crate::settings::BumpAllocatorSettings`, reduced to the two associated constants this file reads.
    pub trait BumpAllocatorSettings {
        const UP: bool;
        const MINIMUM_CHUNK_SIZE: usize;
    }

    /// Opaque stand-in for `crate::chunk::ChunkHeader<A>` (`#[repr(C, align(16))]`, four pointers + `A`).
    /// Only its layout matters here; see `header_layout_axiom`.
    #[verifier::external_body]
    #[verifier::accept_recursive_types(A)]
    pub struct ChunkHeader<A> { marker: PhantomData<A> }

    pub open spec fn tsize<T>() -> int { spec_size_of::<T>() as int }
    pub open spec fn talign<T>() -> int { spec_align_of::<T>() as int }

    #[verifier::external_type_specification]
    #[verifier::external_body]
    pub struct ExLayoutError(LayoutError);

    /// TRUSTED: `Layout::new::<T>()` is the layout of `T`.
    pub assume_specification<T>[Layout::new::<T>]() -> (r: Layout)
        ensures valid_layout(r), lsize(r) == tsize::<T>(), lalign(r) == talign::<T>();

    /// TRUSTED: `Layout::from_size_align` succeeds exactly for a power-of-two alignment and a size that,
    /// rounded up to it, does not exceed isize::MAX.
    pub assume_specification[Layout::from_size_align](size: usize, align: usize) -> (r: Result<Layout, LayoutError>)
        ensures
            r is Ok <==> (p2(align as int) && size as int + align as int - 1 <= isize::MAX as int),
            r is Ok ==> lsize(r->Ok_0) == size as int && lalign(r->Ok_0) == align as int && valid_layout(r->Ok_0);

    /// TRUSTED (Kani checks `config::<A, S>()` against `cfg_valid` for the instantiated allocator types):
    /// the header is `repr(C, align(16))` with four pointers in front of `A`; `AssumedMallocOverhead` is `[usize; 2]`.
    pub broadcast proof fn header_layout_axiom<A>()
        ensures
            #[trigger] talign::<ChunkHeader<A>>() >= 16,
            p2(talign::<ChunkHeader<A>>()),
            tsize::<ChunkHeader<A>>() >= 32,
            aligned(tsize::<ChunkHeader<A>>(), talign::<ChunkHeader<A>>()),
    {
        admit();
    }

    pub broadcast proof fn overhead_layout_axiom()
        ensures
            #[trigger] tsize::<[usize; 2]>() == 16,
            talign::<[usize; 2]>() == 8,
    {
        admit();
    }

}
pub use self::env::*;
/// `crate::chunk::MIN_CHUNK_ALIGN`; src/chunk/size.rs itself asserts (at compile time) that it equals the constant of bumping.rs
pub use super::bumping::MIN_CHUNK_ALIGN;
broadcast use {super::lem::kernel_arith, super::lem::p2_mult, self::env::header_layout_axiom, self::env::overhead_layout_axiom};

/// `c` is the configuration of `config::<A, S>()`.
pub open spec fn cfg_of<A, S: BumpAllocatorSettings>(c: ChunkSizeConfig) -> bool {
    &&& cfg_valid(c)
    &&& c.up == S::UP
    &&& hsize(c) == tsize::<ChunkHeader<A>>()
    &&& halign(c) == talign::<ChunkHeader<A>>()
}

impl<A, S> ChunkSize<A, S> {
    pub closed spec fn raw(self) -> NonZeroUsize { self.size }
    pub open spec fn sz(self) -> int { nz(self.raw()) }
}

impl<A, S> ChunkSizeHint<A, S> {
    pub closed spec fn hint(self) -> usize { self.0 }
}

pub open spec fn raw_opt<A, S>(r: Option<ChunkSize<A, S>>) -> Option<NonZeroUsize> {
    match r { Some(cs) => Some(cs.raw()), None => None }
}

pub open spec fn eff_hint<S: BumpAllocatorSettings>(hint: usize) -> usize {
    if hint > S::MINIMUM_CHUNK_SIZE { hint } else { S::MINIMUM_CHUNK_SIZE }
}

/// C12 for the typed layer: the chunk size computed for `hint` is the one the configuration of (A, S) prescribes
/// for max(hint, MINIMUM_CHUNK_SIZE); `None` only when that size does not fit `usize`.
pub open spec fn calc_size_post<A, S: BumpAllocatorSettings>(hint: usize, r: Option<ChunkSize<A, S>>) -> bool {
    exists|c: ChunkSizeConfig| #[trigger] cfg_of::<A, S>(c) && calc_size_from_hint_post(c, eff_hint::<S>(hint), raw_opt(r))
}

pub open spec fn for_capacity_post<A, S: BumpAllocatorSettings>(l: Layout, r: Option<ChunkSizeHint<A, S>>) -> bool {
    exists|c: ChunkSizeConfig| #[trigger] cfg_of::<A, S>(c) && {
        let h = hint_for_bytes(c, lsize(l) + pad_for(c, l));
        &&& r is None <==> h > umax()
        &&& r is Some ==> r->0.hint() as int == h
    }
}

/// C12: a chunk sized for a capacity request is sized for the hint that request needs.
pub open spec fn from_capacity_post<A, S: BumpAllocatorSettings>(l: Layout, r: Option<ChunkSize<A, S>>) -> bool {
    exists|c: ChunkSizeConfig| #[trigger] cfg_of::<A, S>(c) && {
        let h = hint_for_bytes(c, lsize(l) + pad_for(c, l));
        if h > umax() { r is None } else { calc_size_from_hint_post(c, eff_hint::<S>(h as usize), raw_opt(r)) }
    }
}
