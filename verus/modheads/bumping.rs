use vstd::prelude::*;
use core::alloc::Layout;
use core::num::NonZeroUsize;
use core::ops::Range;
use super::spec::*;

broadcast use {super::lem::kernel_arith, super::lem::layout_step};

/// Transcription of `BumpProps::debug_assert_valid` (the documented precondition of the four
/// bump functions) plus truthfulness of the hints.  Kani checks that this predicate implies
/// that none of the dropped `debug_assert`s of `debug_assert_valid` fires.
pub open spec fn props_valid(p: BumpProps, upward: bool) -> bool {
    let start = p.start as int;
    let end = p.end as int;
    let ma = p.min_align as int;
    &&& valid_layout(p.layout)
    &&& start != 0 && end != 0
    &&& p2(ma) && ma <= 16
    &&& (p.size_is_multiple_of_align ==> aligned(lsize(p.layout), lalign(p.layout)))
    &&& if start > end {
            // the dummy chunk: capacity -16
            start == end + 16 && aligned(start, 16) && aligned(end, 16)
        } else {
            &&& end - start <= smax()
            &&& if upward { aligned(start, ma) && aligned(end, 16) } else { aligned(start, 16) && aligned(end, ma) }
        }
}

/// The mathematical result of an upward bump: `None` iff nothing fits.
pub open spec fn spec_bump_up(start: int, end: int, size: int, align: int, min_align: int) -> Option<(int, int)> {
    let s = up(start, align);
    if s + size <= end { Some((s, up(s + size, min_align))) } else { None }
}

/// The mathematical result of a downward bump.
pub open spec fn spec_bump_down(start: int, end: int, size: int, align: int, min_align: int) -> Option<int> {
    let e = down(end - size, imax(align, min_align));
    if end - size >= 0 && e >= start { Some(e) } else { None }
}

/// Largest sub-range with both ends aligned to `align`; `None` iff the request does not fit.
pub open spec fn spec_prepare_up(start: int, end: int, size: int, align: int) -> Option<(int, int)> {
    let s = up(start, align);
    if s + size <= end { Some((s, down(end, align))) } else { None }
}

pub open spec fn spec_prepare_down(start: int, end: int, size: int, align: int) -> Option<(int, int)> {
    let e = down(end, align);
    if e - size >= start { Some((up(start, align), e)) } else { None }
}

// ---- postconditions as named predicates (the contract text in contracts/bumping.spec only refers to these)

pub open spec fn bump_up_post(p: BumpProps, r: Option<BumpUp>) -> bool {
    match spec_bump_up(p.start as int, p.end as int, lsize(p.layout), lalign(p.layout), p.min_align as int) {
        Some((ptr, new_pos)) => r is Some && r->0.ptr as int == ptr && r->0.new_pos as int == new_pos,
        None => r is None,
    }
}

pub open spec fn bump_down_post(p: BumpProps, r: Option<usize>) -> bool {
    match spec_bump_down(p.start as int, p.end as int, lsize(p.layout), lalign(p.layout), p.min_align as int) {
        Some(ptr) => r is Some && r->0 as int == ptr,
        None => r is None,
    }
}

pub open spec fn bump_prepare_up_post(p: BumpProps, r: Option<Range<usize>>) -> bool {
    match spec_prepare_up(p.start as int, p.end as int, lsize(p.layout), lalign(p.layout)) {
        Some((s, e)) => r is Some && r->0.start as int == s && r->0.end as int == e,
        None => r is None,
    }
}

pub open spec fn bump_prepare_down_post(p: BumpProps, r: Option<Range<usize>>) -> bool {
    match spec_prepare_down(p.start as int, p.end as int, lsize(p.layout), lalign(p.layout)) {
        Some((s, e)) => r is Some && r->0.start as int == s && r->0.end as int == e,
        None => r is None,
    }
}
