use vstd::prelude::*;
use core::alloc::Layout;
use core::num::NonZeroUsize;
use super::spec::*;

broadcast use {super::lem::kernel_arith, super::lem::p2_mult};

/// Every configuration `chunk::size::config::<A, S>()` can produce:
/// overhead layout = Layout::new::<[usize; 2]>() = (16, 8); the header is
/// `#[repr(C, align(16))] ChunkHeader<A>`: four pointers + A, so align >= 16,
/// size >= 32 and size a multiple of align.  (Kani checks `config::<A,S>()` against this
/// predicate for the instantiated allocator types.)
pub open spec fn cfg_valid(c: ChunkSizeConfig) -> bool {
    &&& valid_layout(c.assumed_malloc_overhead_layout)
    &&& lsize(c.assumed_malloc_overhead_layout) == 16
    &&& lalign(c.assumed_malloc_overhead_layout) == 8
    &&& valid_layout(c.chunk_header_layout)
    &&& lalign(c.chunk_header_layout) >= 16
    &&& lsize(c.chunk_header_layout) >= 32
    &&& aligned(lsize(c.chunk_header_layout), lalign(c.chunk_header_layout))
}

pub open spec fn hsize(c: ChunkSizeConfig) -> int { lsize(c.chunk_header_layout) }
pub open spec fn halign(c: ChunkSizeConfig) -> int { lalign(c.chunk_header_layout) }

/// alignment every chunk size is rounded down to
pub open spec fn size_align(c: ChunkSizeConfig) -> int { if c.up { 16 } else { imax(16, halign(c)) } }

/// smallest size hint: overhead + header
pub open spec fn min_hint(c: ChunkSizeConfig) -> int { up(16, halign(c)) + hsize(c) }

pub open spec fn size_step(c: ChunkSizeConfig) -> int { imax(0x1000, halign(c)) }

/// mathematical value of calc_hint_from_capacity_bytes
pub open spec fn hint_for_bytes(c: ChunkSizeConfig, bytes: int) -> int {
    if c.up { up(16, halign(c)) + hsize(c) + bytes + 16 } else { up(16 + bytes, halign(c)) + hsize(c) + 16 }
}

pub open spec fn pad_for(c: ChunkSizeConfig, l: Layout) -> int { imax(lalign(l) - halign(c), 0) }

pub open spec fn offset_add_layout_post(offset: usize, l: Layout, r: Option<usize>) -> bool {
    let o = up(offset as int, lalign(l)) + lsize(l);
    &&& r is None <==> o > umax()
    &&& r is Some ==> r->0 as int == o
}

pub open spec fn align_size_post(c: ChunkSizeConfig, size: usize, r: usize) -> bool {
    r as int == down(size as int, size_align(c))
}

pub open spec fn calc_hint_from_capacity_bytes_post(c: ChunkSizeConfig, bytes: usize, r: Option<usize>) -> bool {
    &&& r is None <==> hint_for_bytes(c, bytes as int) > umax()
    &&& r is Some ==> r->0 as int == hint_for_bytes(c, bytes as int)
}

pub open spec fn calc_hint_from_capacity_post(c: ChunkSizeConfig, l: Layout, r: Option<usize>) -> bool {
    &&& r is None <==> hint_for_bytes(c, lsize(l) + pad_for(c, l)) > umax()
    &&& r is Some ==> r->0 as int == hint_for_bytes(c, lsize(l) + pad_for(c, l))
}

/// C12: multiples of 16 (and of the header alignment when downwards), large enough for the
/// header and for what the hint asked (less the 16 bytes of assumed malloc overhead),
/// `None` exactly when the mathematical size does not fit `usize` (never wraps).
pub open spec fn calc_size_from_hint_post(c: ChunkSizeConfig, hint: usize, r: Option<NonZeroUsize>) -> bool {
    let h = imax(hint as int, min_hint(c));
    &&& r is None <==> (h >= size_step(c) && up(h, size_step(c)) > umax())
    &&& r is Some ==> {
        let s = nz(r->0);
        &&& aligned(s, 16)
        &&& aligned(s, size_align(c))
        &&& s >= h - 16
        &&& s >= hsize(c)
        &&& s <= umax()
        // not absurdly larger than asked: below twice the hint, or below hint + one step
        &&& (h < size_step(c) ==> s < 2 * h)
        &&& (h >= size_step(c) ==> s < h + size_step(c))
    }
}
