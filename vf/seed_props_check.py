"""For every seeded change (seeded/*/meta.json): is at least one obligation that catches it registered under the
property the seed targets?  (`./check <property>` only runs the obligations registered under that property.)
Usage: python3 vf/seed_props_check.py"""
import glob
import json
import os
import re
import sys

sys.path.insert(0, os.path.dirname(os.path.dirname(os.path.abspath(__file__))))
from vf import obligations as o  # noqa: E402

byh = {x["harness"]: x for x in o.K}
byv = {x["id"]: x for x in o.V}
bad = 0
for f in sorted(glob.glob(os.path.join(os.path.dirname(os.path.dirname(os.path.abspath(__file__))), "seeded", "*", "meta.json"))):
    m = json.load(open(f))
    prop = m["breaks_property"]
    cb = m.get("caught_by", [])
    txt = " ".join(cb if isinstance(cb, list) else [cb])
    names = set()
    for h in re.findall(r"(?:K:)?(h_\w+::[\w{},]+)", txt):
        mm = re.match(r"(h_\w+::\w*)\{([\w,]+)\}(\w*)", h)
        if mm:
            for part in mm.group(2).split(","):
                names.add(mm.group(1) + part + mm.group(3))
        else:
            names.add(h.rstrip(","))
    # short forms like "stub_vec_reserve_exact_dn" after a fully qualified sibling
    mod = None
    for tok in re.findall(r"(h_\w+)::|\b((?:stub|fixed|overgrant|claim|without|grow|typed|with_settings|k)_\w+)", txt):
        if tok[0]:
            mod = tok[0]
        elif mod and (mod + "::" + tok[1]) in byh:
            names.add(mod + "::" + tok[1])
    vs = set(re.findall(r"(V:[\w:]+)", txt))
    found = [(h, byh[h]["props"]) for h in names if h in byh] + [(v, byv[v]["props"]) for v in vs if v in byv]
    if not found:
        if "MISSED" in m.get("status", "") or not txt:
            print("%-6s %s  (missed: %s)" % (m["id"], prop, m.get("status", "")[:70]))
        else:
            print("%-6s %s  ?? no registered obligation recognised in caught_by" % (m["id"], prop))
            bad += 1
        continue
    if not any(prop in props for _, props in found):
        print("%-6s %s  NOT under the target property: %s" % (m["id"], prop, found))
        bad += 1
print("mismatches:", bad)
sys.exit(1 if bad else 0)
