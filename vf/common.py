"""Shared helpers for the /verif driver (stdlib only)."""
import hashlib
import json
import os
import subprocess
import time

REPO = os.environ.get("VERIF_REPO", "/repo")
HERE = os.path.dirname(os.path.abspath(__file__))
VERIF = os.path.dirname(HERE)
BUILD = os.environ.get("VERIF_BUILD", os.path.join(VERIF, "build"))
CACHE = os.path.join(BUILD, "cache")
EVIDENCE = os.environ.get("VERIF_EVIDENCE", os.path.join(VERIF, "evidence"))
REPLAYS = os.environ.get("VERIF_REPLAYS", os.path.join(VERIF, "replays"))


def ensure_dirs():
    for d in (BUILD, CACHE, EVIDENCE, REPLAYS, os.path.join(BUILD, "verus"), os.path.join(BUILD, "kani")):
        os.makedirs(d, exist_ok=True)


def sha(data):
    if isinstance(data, str):
        data = data.encode()
    return hashlib.sha256(data).hexdigest()


def hash_tree(paths, exts=None):
    """Content hash of files / directory trees (sorted walk)."""
    h = hashlib.sha256()
    for p in paths:
        if os.path.isfile(p):
            h.update(p.encode())
            h.update(open(p, "rb").read())
        elif os.path.isdir(p):
            for root, dirs, files in os.walk(p):
                dirs.sort()
                if "__pycache__" in dirs:
                    dirs.remove("__pycache__")
                for f in sorted(files):
                    if exts and not f.endswith(tuple(exts)):
                        continue
                    fp = os.path.join(root, f)
                    h.update(fp.encode())
                    h.update(open(fp, "rb").read())
    return h.hexdigest()


def run(cmd, cwd=None, env=None, timeout=None, stdin=None):
    """Run a command; returns (rc, stdout, stderr, wall_s, timed_out)."""
    t0 = time.time()
    e = dict(os.environ)
    if env:
        e.update(env)
    try:
        p = subprocess.Popen(cmd, cwd=cwd, env=e, stdout=subprocess.PIPE, stderr=subprocess.PIPE, text=True,
                             start_new_session=True)
        try:
            out, err = p.communicate(timeout=timeout)
            return p.returncode, out, err, time.time() - t0, False
        except subprocess.TimeoutExpired:
            import signal
            try:
                os.killpg(p.pid, signal.SIGKILL)
            except Exception:
                pass
            out, err = p.communicate()
            return -9, out, err, time.time() - t0, True
    except FileNotFoundError as ex:
        return 127, "", str(ex), time.time() - t0, False


def cache_get(key):
    if os.environ.get("VERIF_NOCACHE"):
        return None
    p = os.path.join(CACHE, key + ".json")
    if os.path.exists(p):
        try:
            return json.load(open(p))
        except Exception:
            return None
    return None


def cache_put(key, val):
    os.makedirs(CACHE, exist_ok=True)
    p = os.path.join(CACHE, key + ".json")
    tmp = p + ".tmp%d" % os.getpid()
    json.dump(val, open(tmp, "w"))
    os.replace(tmp, p)
