#!/usr/bin/env python3
"""Regenerate MANIFEST.json from vf/propinfo.py (claimed properties) and the fixed property list."""
import json
import os
import sys

sys.path.insert(0, os.path.dirname(os.path.dirname(os.path.abspath(__file__))))
from vf import propinfo  # noqa: E402

VERIF = os.path.dirname(os.path.dirname(os.path.abspath(__file__)))
props = [json.loads(l) for l in open(os.path.join(VERIF, "properties.jsonl"))]
checks = []
na = []
for p in props:
    pid = p["id"]
    info = propinfo.PROPS.get(pid)
    if info is None:
        na.append(dict(property_id=pid, reason=propinfo.NOT_APPLICABLE.get(pid, "check not built yet within this technique family (work in progress)")))
        continue
    checks.append(dict(
        property_id=pid,
        quick_cmd="./check %s --tier quick" % pid,
        thorough_cmd="./check %s --tier thorough" % pid,
        evidence_file="/verif/evidence/%s.json" % pid,
        replay_cmd_template="./check replay {path}",
        engine="verus+kani",
        level_claimed=dict(category=info["manifest_level"] if "manifest_level" in info else info["level"], text=info["claim"], design_ref=info.get("design_ref", "DESIGN.md §3 " + pid)),
        level_note=info["note"],
        technique=info["technique"],
    ))
m = dict(
    version=1,
    setup_cmd="./check setup",
    hooks=dict(
        guard="cfg(kani)",
        enable="cargo kani (run from /repo with --target-dir /verif/build/kani/target) sets --cfg kani; cargo build/test never does",
        baseline_off_cmd="cd /repo && cargo test --workspace --no-fail-fast --offline",
        source_commits=propinfo.HOOK_COMMITS,
        add_only=True,
    ),
    engines=[
        dict(name="verus", path="/verif/vf/run_verus.py", serves_properties=sorted(propinfo.PROPS), kind_free_text="Verus 0.2026.09.13 on the mechanically extracted integer kernel (vf/extract.py) + lemma modules"),
        dict(name="kani", path="/verif/vf/run_kani.py", serves_properties=sorted(propinfo.PROPS), kind_free_text="Kani 0.68 / CBMC 6.11 harnesses compiled into the crate from /repo's working tree (cfg(kani))"),
    ],
    checks=checks,
    notes="Contract-based deductive verification: see DESIGN.md. Exit 2 = UNDECIDED (never an alarm). Known findings and repaired defects: /verif/known_findings.txt (read-only at run time; `known:` lines are echoed as KNOWN-FINDING, `fixed:` lines suppress nothing); reproductions under /verif/findings/. Seeded changes: /verif/seeded/.",
    not_applicable=na,
)
json.dump(m, open(os.path.join(VERIF, "MANIFEST.json"), "w"), indent=1)
print("claimed:", [c["property_id"] for c in checks], "not_applicable:", [n["property_id"] for n in na])
