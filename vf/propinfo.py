"""Per-property metadata and the evidence writer."""
import os
import re

from .common import BUILD, REPO, VERIF

BASE_ASSUMPTIONS = [
    "rustc type/borrow checking and monomorphisation; Verus 0.2026.09.13 + Z3; Kani 0.68 + CBMC 6.11 + CaDiCaL",
    "64-bit target only (Verus: `global size_of usize == 8`; Kani: x86_64)",
    "core::alloc::Layout invariant (align power of two, size+align-1 <= isize::MAX) is assumed for every Layout value (Verus: assume_specification on Layout::size/align; Kani: Layout::from_size_align is Ok)",
    "src/chunk/size.rs (Verus): trait BumpAllocatorSettings reduced to its consts UP / MINIMUM_CHUNK_SIZE, ChunkHeader<A> opaque; trusted: assume_specification for Layout::new::<T> (layout of T) and Layout::from_size_align, axioms header_layout_axiom (align_of ChunkHeader<A> power of two >= 16, size >= 32 and a multiple of the alignment) and overhead_layout_axiom ([usize;2] is (16,8)) - the same facts Kani checks per instantiation (C10 obligations on config::<A,S>()); vstd's specification of core::mem::align_of",
    "machine arithmetic is never treated as mathematical: Verus checks every exec + - * against usize bounds, wrapping/saturating/checked ops have vstd's machine semantics; Kani is bit-precise",
]

KANI_ASSUMPTIONS = [
    "CBMC memory model: distinct objects never alias, fresh memory is nondeterministic, addresses are object-base + offset",
    "kani::assume(pre) in harnesses is the contract's precondition; each harness carries cover points that must be SATISFIED (checked on every run)",
    "base allocators in pointer-level harnesses are models of a conforming allocator (LogAlloc / fixed buffers); a base allocator violating the Allocator contract is out of scope",
    "Kani has no unwinding semantics: clauses about panics/unwinding are not covered",
    "h_stub obligations (growable collections) replace the arena by StubBump, an executable statement of the allocator traits' contract (kani/incrate/h_stub.rs): the collections are proved against that contract; that the real arena refines it is decided only as far as the arena obligations go (ob_bump_alloc, ob_realloc, ob_deallocate, ob_prepared_slice*, ob_mut_vec*: blocks inside owned memory, aligned, disjoint; grow/shrink keep the prefix; a refused request changes nothing; prepared slices span the free space and commit len <= cap elements)",
]

HOOK_COMMITS = ["0d1b28c", "7f73fb6", "70da98a"]

NOT_APPLICABLE = {
    "C04": "quantifies over safe *programs* and the oracle is rustc's accept/reject verdict (borrow/const checking); Verus and Kani both run after type checking with lifetimes erased, so no contract on a function of /repo can express it (DESIGN.md §4)",
    "C19": "quantifies over thread schedules; Kani has no thread support and Verus would need bump_pool.rs rewritten over its own Mutex/permission types, i.e. a model rather than the code (DESIGN.md §4)",
}

# level: evidence/manifest category; clauses_not_covered: stated in evidence; technique for MANIFEST
PROPS = {
    "C11": dict(
        level="proof",
        technique="Verus contracts (requires/ensures) on the mechanically extracted src/bumping.rs, discharged by Z3 for all inputs; property lemmas over the contracts; Kani full-domain twins for counterexamples",
        claim="Every function of src/bumping.rs carries a functional contract (exact result address and new position, None exactly when nothing fits, no arithmetic overflow) proved by Verus for all 64-bit inputs including the dummy range; tightness, nearest-block, hint independence and the prepare variants' maximality are Verus lemmas over those contracts; the same pre/post is re-checked by Kani on the real compiled functions (with their debug assertions) over the full domain. Unbounded proof is the right level because the input space (~2^200) is what tests cannot touch.",
        note="Trusted: Layout invariant (assume_specification on Layout::size/align), vstd specs of wrapping_sub/saturating_*/checked_*/NonZero, 64-bit usize, the textual extraction (drops listed in evidence; bodies re-located byte-identically), Z3/CBMC.",
        not_covered=[],
    ),
    "C12": dict(
        level="proof",
        technique="Verus contracts on the extracted src/chunk/size_config.rs and src/chunk/size.rs (the typed layer: config, from_hint, from_capacity, calc_size, for_capacity, align_allocation_size, layout; every A and S) + lemma fresh_chunk_fits over the size and bump contracts; Kani full-domain twins",
        manifest_level="proof",
        claim="All size computations of src/chunk/size_config.rs carry contracts proved by Verus for every header layout (align>=16,size>=32), hint, layout and direction: multiples of 16 (and of the header alignment downwards), large enough for header+request, None exactly on mathematical overflow (never wraps); lemma fresh_chunk_fits composes them with the C11 contracts: whatever is granted, the layout that caused a chunk is allocatable in it; grow_doubles gives >= 2*prev-16. Kani re-checks each function on the full domain and the whole chain on a stated bounded domain.",
        note="Trusted: as C11 plus assume_specification for usize::checked_next_power_of_two; cfg_valid (header align>=16, size>=32, multiple of align; overhead layout (16,8)) is proved for config::<A,S>() from two admitted layout axioms about repr(C,align(16)) ChunkHeader<A> and [usize;2] plus assume_specification of Layout::new / Layout::from_size_align (verus/modheads/chunk_size.rs) - the same facts are checked per instantiation by Kani under C10. The end-to-end Kani chain harness is bounded (bound in evidence) and is not what the claim rests on.",
        not_covered=["pointer glue of NonDummyChunk::new/append_for (header placement) is checked by Kani harnesses under C10/C05, per instantiation", "the growth rule (a later chunk >= twice the previous less 16) for chunks in the page-multiple regime (>= 4 KiB): NonDummyChunk::grow_size is pointer glue outside the Verus kernel and page-sized chunks exhaust CBMC; checked for the power-of-two regime only (seed C12b)"],
    ),
    "C01": dict(
        level="other",
        technique="contracts (pre/post/frame) on RawChunk/RawBump/allocator_impl functions checked by Kani from an arbitrary well-formed arena state; kernel arithmetic proved by Verus; history induction written in DESIGN.md",
        claim="Integer kernel: proved for all inputs (Verus, C11 contracts). Pointer level: every function that hands out or moves a block (RawChunk::alloc/prepare_*, RawBump::alloc incl. slow path, allocator_impl::grow/shrink/deallocate, scope exits, alloc_try_with) satisfies its step contract -- result aligned, >= requested, inside owned memory, inside what was free (or the old block), allocated set otherwise only grows -- from ANY well-formed state with any live sub-block. These are bounded obligations (literal chunk sizes, <=3 chunks, small layouts), never counted as proved. 'For every history' follows by the induction of DESIGN.md 2.5, which is a written argument.",
        note="Bounded: chunk sizes 48/112/240 bytes (literal), K<=3, layout sizes <= 600 bytes; settings/allocator instantiation lists in evidence. LogAlloc models a conforming base allocator. CBMC memory model. The history induction is not machine-checked.",
        not_covered=["the induction over operation sequences (DESIGN.md 2.5) is a written argument", "collections' buffers and prepared allocations are covered under C15/C08, typed entry points under C17", "clauses about exits by unwinding / panics injected in callbacks (neither verifier has unwinding semantics)"],
    ),
    "C02": dict(
        level="other",
        technique="byte-frame postconditions with universally quantified (nondeterministic) witness bytes on the real grow/grow_zeroed/shrink/deallocate/alloc/allocate_zeroed/reset_to/WithoutShrink/WithoutDealloc, checked by Kani",
        claim="For every operation that could write memory the contract states: no content byte outside the new block changes (witness byte ranges over every byte of every grant), the first min(old,new) bytes are preserved (witness index), zeroed allocations / the tail of grow_zeroed read 0 although memory was nondeterministic before. Old and new alignments are independent symbolic values; the live block is any sub-block of the allocated region. Bounded (one chunk of 48 bytes quick, 48+112 thorough; block sizes <= 12..32).",
        note="Bounded as stated; a symbolic chunk size together with a symbolic-length copy exhausts CBMC (measured), so chunk sizes are literals. One defect found by these obligations and fixed (known_findings.txt).",
        not_covered=["claim/reserve/chunk growth frames are covered through the alloc slow-path and claim obligations only for K<=3", "clauses about exits by unwinding / panics injected in callbacks (neither verifier has unwinding semantics)"],
    ),
    "C03": dict(
        level="other",
        technique="contracts on Checkpoint::new, RawBump::reset_to/reset/reset_to_start, BumpScopeGuard, scoped/scoped_aligned closures, alloc_try_with(_mut), checked by Kani from arbitrary earlier AND arbitrary later states",
        claim="reset_to from ANY later state of the arena (current chunk at or after the checkpoint chunk, all later positions arbitrary) restores current chunk, position and allocated byte count exactly, touches no other header field, writes no content byte and never calls the base allocator; guard reset/drop and closure return do the same after a nondeterministic workload; the unallocated checkpoint rewinds to the start of the first chunk; alloc_try_with Err restores exactly. reset keeps exactly the last chunk. Bounded (K<=3, literal chunk sizes).",
        note="'Repeating the workload needs no new memory' and 'a reset() loop converges' are derived arguments (DESIGN.md 2.5), not machine-checked. Bounded as stated.",
        not_covered=["scope exit by unwinding", "the two derived sentences (replay needs no new chunk; reset loop converges) are written arguments over the contracts + C12 grow_doubles"],
    ),
    "C05": dict(
        level="other",
        technique="a logging base-allocator model asserts exactly-once release with fitting layout inside its deallocate; contracts on NonDummyChunk::new/deallocate/layout, reset, reset_to_start, manually_drop, scope exits; Verus lemma for the size arithmetic",
        claim="Verus (all inputs): the chunk size used for release lies between the requested and the granted size and keeps the alignment (align_size / fresh_chunk_fits). Kani (bounded K<=3): every grant is released exactly once with the same alignment and a size in [requested, granted] by reset (all but the last) and manually_drop from any current chunk; reset_to_start, reset_to, scope exits release nothing; an unallocated arena never calls the base allocator and a refused first chunk leaves nothing to release. CBMC's bounds checks cover 'never touches bytes outside the granted blocks' in every harness.",
        note="LogAlloc is an assumed model of a conforming allocator; exact grants in most obligations, over-granting (8/24/40 extra bytes) in the ob_overgrant obligations and arithmetically for every over-grant by Verus. BumpPool return path is not covered (C19).",
        not_covered=["panics injected in user callbacks", "BumpPool return path"],
    ),
    "C07": dict(
        level="other",
        technique="error-path postconditions with a nondeterministically failing / refusing base allocator on the real alloc slow path, grow/shrink, alloc_try_with, unallocated first chunk; overflow arithmetic proved by Verus; Kani's built-in panic freedom",
        claim="Size computations: None exactly on mathematical overflow, never wrap (Verus, all inputs). Allocation paths instantiated with E=AllocError: a refused chunk yields Err (a reachable panic would be a failed CBMC check), no chunk is leaked, the invariant holds, every previously allocated byte stays allocated and unchanged, the arena keeps working (bounded K<=3).",
        note="Growable collections (BumpVec, BumpString, MutBumpVec, MutBumpVecRev): every try_ growth method is checked against the allocator contract stub with requests served, refused, and a new chunk refused, reserve amounts over the full usize range (h_stub). 'a panicking method never returns' rests on Infallible being uninhabited (type system) and is not separately checked here.",
        not_covered=["panicking twins (E=Infallible) not instantiated", "MutBumpString, alloc_fmt* (core::fmt exhausts CBMC)", "failure inside a Clone / iterator callback (no unwinding semantics)"],
    ),
    "C10": dict(
        level="other",
        technique="representation invariant wf (defined from the base allocator's grants, independently of the accessors) as postcondition of every mutating obligation; accessor/sum identities and typed-vs-type-erased equalities checked by Kani; size arithmetic lemmas by Verus",
        claim="wf (position in content range and MIN_ALIGN-aligned for the current chunk, size multiple of 16, header inside the grant, doubly linked list consistent, each later chunk strictly larger) is asserted after every operation contract of C01/C03/C05/C13/C14/C18; Stats/Chunk accessors equal the grant-derived geometry and sums, forward/backward iteration are reverses, AnyStats/AnyChunk equal the typed values for ZST, 8-byte and align-32 base allocators; claimed/unallocated report zeros. Verus proves the size facts for all inputs. One defect found by these obligations and fixed.",
        note="Bounded: K<=3, literal chunk sizes; allocator instantiations (ZST, 8-byte, align-32; exact and over-granting) and the MIN_ALIGN x direction matrix are listed in the evidence.",
        not_covered=["clauses about exits by unwinding / panics injected in callbacks (neither verifier has unwinding semantics)"],
    ),
    "C13": dict(
        level="other",
        technique="Verus lemmas realloc_same_address_{up,down} over the C11 contracts; Kani contracts on deallocate/is_last/grow/shrink and the WithoutDealloc/WithoutShrink wrappers for any live sub-block",
        claim="Proved (Verus): after bumping a layout whose size is a multiple of MIN_ALIGN the block ends at the position, and resetting the position as deallocate does makes the same request return the same address. Kani (bounded): deallocate of the newest block sets exactly that position, of any other block changes no header field; grow of the newest block upwards with room returns the same address; shrink of a non-newest block reclaims nothing; DEALLOCATES=false / SHRINKS=false / WithoutShrink never decrease the allocated byte count; data intact (C02 clauses).",
        note="Bounded as in C02/C01. Nesting of wrappers is covered only one level deep.",
        not_covered=["wrappers nested more than one level / through references (see C17)"],
    ),
    "C14": dict(
        level="other",
        technique="Verus lemma dummy_range_fails (every layout fails on the -16 range) + Kani contracts on claim/reclaim/BumpClaimGuard and every RawBump entry on the claimed handle",
        claim="Proved: on the dummy range all four bump functions return None for every layout. Kani (loop-free in the claim part, K<=2): claim swaps in the claimed dummy and hands the old chunk to the guard touching no header; alloc/alloc_sized/alloc_slice/prepare_*/reserve/make_allocated/allocate fail; deallocate/shrink of any block of any real chunk change nothing; stats are all zero; a second claim panics; reclaim/guard drop make the original continue exactly at the guard's chunk and position; a scope opened through the guard is fully undone.",
        note="Only with a zero-sized base allocator: for a sized one `&ChunkHeader<A>` is formed on the 32-byte static dummy header (CBMC flags the reference; see DESIGN.md observations).",
        not_covered=["guard drop by unwinding", "nested claims", "growable collections created before the claim"],
    ),
    "C15": dict(
        level="other",
        technique="frame contracts (no header field changes) on RawChunk::prepare_allocation(_range), Verus/Kani contracts on bump_prepare_*, prepare+fill+commit contracts on the typed slice methods and on MutBumpVec/MutBumpVecRev, commit contract of alloc_try_with_mut",
        claim="prepare_allocation(_range) change no header field and return the largest aligned sub-range of the free part of the current chunk (kernel proved by Verus for all inputs; glue bounded). try_prepare_slice_allocation(_rev) + filling + allocate_prepared_slice(_rev), and MutBumpVec / MutBumpVecRev push / drop / into_slice: the position never moves while filling or when dropped unfinalised; finalising yields exactly the pushed elements (reversed order of pushing for rev) and advances the position by the contents plus padding below max(element align, MIN_ALIGN). alloc_try_with_mut commits exactly the value.",
        note="MutBumpVec / MutBumpVecRev: try_push (with growth inside one chunk), drop unfinalised, into_slice are under contract for u16 and <=3 pushes; prepare/commit of typed slices forward and reverse through the trait methods likewise. Against the allocator contract stub (h_stub): MutBumpVec / MutBumpVecRev / MutBumpString growth into a newer region (served / refused / new region refused), zero-sized elements, alloc_iter_mut(_rev) incl. wrong size hints. Over the real arena: MutBumpVec::map_in_place + into_slice (one recorded finding for the downward direction, known_findings.txt). alloc_fmt_mut / alloc_cstr_fmt_mut are NOT covered (core::fmt).",
        not_covered=["filling that outgrows the current chunk over the REAL arena (covered against the contract stub and through the slow-path contracts of C01)", "alloc_fmt_mut, alloc_cstr_fmt_mut (core::fmt exhausts CBMC)", "clauses about exits by unwinding / panics injected in callbacks (neither verifier has unwinding semantics)"],
    ),
    "C18": dict(
        level="other",
        technique="Verus contract on align_pos + lemma align_pos_in_range; Kani contracts on RawBump::align_to, BumpAlignGuard, aligned::<N>, scoped_aligned::<N>",
        claim="Proved: align_pos yields the least/greatest multiple in bump direction, moves by < N, stays inside a range whose far end is 16-aligned, is idempotent and implies the weaker alignments. Kani (bounded K<=2): align_to moves only the current position accordingly; inside aligned/scoped_aligned the position is a multiple of N at entry and after each allocation; after aligned it is a multiple of the outer MIN_ALIGN; after scoped_aligned exactly the entry position; earlier data intact.",
        note="(outer,inner) pairs instantiated: see evidence; with_settings/borrow_mut_with_settings panics are not instantiated.",
        not_covered=["with_settings / borrow_mut_with_settings conversions and their panics", "unwinding out of a region", "all 25 (outer,inner) pairs (5 instantiated)"],
    ),
    "C17": dict(
        level="other",
        technique="Verus lemmas (hint independence of bump_up/bump_down, proved for all inputs) + relational Kani obligations: each entry point against RawBump::alloc with the layout it stands for, from the same arbitrary state",
        claim="Hint independence (the typed fast paths compute the same block and position as the generic layout path) is proved for all inputs by Verus (c11_up_hints / c11_down_hints). Kani then shows for 15 entry points (alloc_sized, alloc_slice, alloc_slice_for, allocator_impl::allocate, Allocator::allocate through BumpScope / &BumpScope / WithoutDealloc / nested wrappers / dyn BumpAllocatorCore, try_allocate_layout / try_allocate_sized typed and dyn, try_alloc, the panicking alloc, try_alloc_slice_copy) that from the same state they give the same success, address, new position and current chunk as the layout path, and equal stored values. Bounded (one 112-byte chunk, small layouts).",
        note="Entry-point pairs not in the list (Bump vs BumpScope inherent methods generated by forward_methods!, MutBump* traits, the remaining try_/panicking twins) are not covered. Bump is repr(transparent)-compatible with BumpScope but that cast is not exercised here.",
        not_covered=["forward_methods! inherent methods of Bump/BumpScope other than the ones listed (the provided trait methods they forward to ARE covered against the contract stub, incl. panicking-vs-try twins)", "alloc_fmt* / alloc_cstr_fmt* (core::fmt exhausts CBMC; seed C17b)", "pairs not listed in the evidence samples"],
    ),
    "C16": dict(
        level="other",
        technique="per-operation partition contracts on BumpBox<[T]>::{split_off,split_at,split_first,split_last,split_off_first,split_off_last,merge}, FixedBumpVec::{split_off,split_at_spare}, BumpBox<str>::split_off checked by Kani; independence of the parts = the sub-block preconditions of the C01/C02/C13 realloc/deallocate contracts",
        claim="split_at / split_first / split_last / split_off_first / split_off_last / split_at_spare on a symbolic slice or fixed vector (len<=4, cap 5): parts adjacent and in order, lengths (and capacity) add up, every element in its place, None only when empty; merge of adjacent parts restores the whole (address, length, elements) and merge of non-adjacent parts never returns. split_off (BumpBox<[T]> and FixedBumpVec incl. capacity arithmetic): for EVERY range of every length 3..6 the part is the range in order, the rest keeps its order, lengths/capacities add up, buffers disjoint and inside the original (concrete length and range, symbolic element values); BumpBox<str>::split_off at every boundary of two-character texts, FixedBumpString::split_off for every boundary range of three-character texts (contents, UTF-8 validity, capacities add up, buffers disjoint); partition (every element exactly once, predicate respected, parts adjacent), map_in_place (same and smaller layout) and into_flattened keep count and order (lengths 3, 4, 6). Independence of parts afterwards is an instance of the C01/C02/C13 contracts, which are proved (bounded) for ANY sub-block of the allocated region, not only for blocks an allocation call returned.",
        note="BumpVec/BumpString::split_off (delegating to the fixed variants) are not separately under contract; split_off with a SYMBOLIC range is out of reach: CBMC did not finish slice::rotate_* within 10 minutes even for len 3 (measured); FixedBumpVec::split_off capacity arithmetic likewise.",
        not_covered=["BumpVec/BumpString::split_off wrappers", "lengths above 6", "zero-sized elements", "follow-up operation sequences beyond the sub-block argument"],
    ),
    "C08": dict(
        level="other",
        technique="per-operation refinement contracts against std::vec::Vec from an arbitrary symbolic vector state (fixed buffer), checked by Kani",
        claim="BumpBox<[T]> (remove, swap_remove, pop, truncate, clear, retain, dedup; drain for every range consumed from either end; split_off for every range; partition, map_in_place, into_flattened) and FixedBumpVec (try_push, try_insert / remove / swap_remove at every index, try_extend_from_slice_copy, try_extend_from_within_copy for every range, try_resize to every length, dedup_by_key, retain, split_off for every range incl. capacities, capacity, is_full) return the same values and leave the same contents/length as std::vec::Vec - for every symbolic state with len<=4 / capacity 5 (symbolic-shape obligations) or for every index and range of the concrete lengths 0..6 with symbolic element values (concrete-shape obligations); MutBumpVec / MutBumpVecRev push + into_slice (see C15); capacity >= len; fixed vectors never change address/capacity and report an error when full keeping their contents; ZST capacity is usize::MAX. Because the precondition is 'any state', not 'a state built by the harness', this extends to operation sequences by induction.",
        note="Bounded: lengths <=6, element type u8. BumpVec / MutBumpVec / MutBumpVecRev growth, capacity promises (reserve over the full usize range, no reallocation while the capacity suffices), shrink_to_fit, shrink_to, into_boxed_slice, into_fixed_vec, split_off, into_iter, append, extend_from_within are covered against the allocator CONTRACT stub (h_stub; over a real arena CBMC does not finish); splice, extract_if contents, append, shrink_to_fit, out-of-range panics are not covered.",
        not_covered=["splice, extract_if (contents), map, from_iter*", "panics on out-of-range arguments of the vector types", "growable collections over the real arena (only against the contract stub)"],
    ),
    "C06": dict(
        level="other",
        technique="drop-counting element type whose Drop asserts 'never twice'; per-operation contracts on BumpBox<[T]> and its iterators, checked by Kani for panic-free executions",
        claim="Drop-counting element type on BumpBox<[Tok]>: clear, truncate, remove, swap_remove, pop, retain, into_iter (both ends) with a symbolic length <=3; split_off (parts dropped in either order), drain consumed k elements then dropped, drain consumed from the back then keep_rest (kept elements in order), extract_if partially consumed, dedup_by for EVERY range of lengths 2..4: each element is dropped exactly once, a removed value is not dropped before the caller drops it, leak / into_raw drop nothing. Zero-sized element type with a counting Drop: drain / split_off / truncate / into_iter for every range of lengths 2,3,5: the number of drops equals the number of elements. One defect found by the zero-sized obligation and fixed (known_findings.txt).",
        note="Panic-free executions only: neither verifier has unwinding semantics, so every clause about a callback that panics mid-operation is out of reach. Consumption of iterators over ZERO-SIZED elements cannot be exercised (CBMC reports a spurious memset precondition for mem::zeroed::<ZST>()). FixedBumpVec/BumpVec/MutBumpVec(Rev) wrappers, splice, map(_in_place), append, resize, extend are not covered. Kani leaves 23 internal side checks (ptr::offset_from on drained ranges) UNDETERMINED in the drain obligations; all contract clauses are decided.",
        not_covered=["every panic-injection clause (a Clone / closure that panics mid-operation: Kani has no unwinding, so drop guards never run)", "splice, map, append, resize, extend of the growable vectors (growth by push, refused push, remove and drop ARE covered in h_stub)", "consuming iterators over zero-sized elements"],
    ),
    "C09": dict(
        level="other",
        technique="per-operation refinement contracts against std::string::String over symbolic UTF-8 text with a concrete byte-length pattern, every index enumerated, checked by Kani; independent UTF-8 validator cross-checked against core::str::from_utf8",
        claim="For text of up to two characters with every combination of UTF-8 lengths (1-4 bytes each; all scalar values of those lengths symbolic) BumpBox<str>::{truncate, split_off, remove, pop} at every boundary index return the same characters and leave the same bytes as std::string::String, and the contents stay valid UTF-8; every out-of-range or non-boundary index makes truncate/split_off/remove panic (never return); FixedBumpString::{try_insert, try_insert_str, try_push_str, try_replace_range} succeed iff the result fits the fixed capacity, equal String on success and leave the contents unchanged on failure; BumpBox::from_utf8 accepts exactly what core::str::from_utf8 accepts (all byte strings of length 2-4).",
        note="Bounded: <=2 characters (<=8 bytes), the length pattern is concrete per obligation (a symbolic pattern did not finish in CBMC). BumpString growth (try_push, try_push_str, try_insert, try_insert_str, try_extend_from_within, try_replace_range, try_reserve, shrink_to_fit; bad indices panic) is covered against the allocator contract stub (h_stub). MutBumpString, retain, drain, extend_from_within, from_utf16(_lossy), from_utf8_lossy, formatting, C-string constructors and UTF-8 validity after a panic are NOT covered.",
        not_covered=["from_utf8_lossy / from_utf16* (no verdict in CBMC; seed C09c)", "retain, drain, extend_from_within, from_utf8_lossy, from_utf16(_lossy), formatting, alloc_cstr* / into_cstr", "validity after an operation that panicked (no unwinding semantics)", "texts longer than two characters"],
    ),
}


def scan_assumptions():
    """Mechanical scan for assume/admit/external_body/assume_specification/kani::assume/kani::stub."""
    found = []
    pats = [r"\bassume\(", r"\badmit\(", r"external_body", r"assume_specification", r"external_type_specification",
            r"kani::assume", r"kani::stub", r"#\[verifier::external", r"uninterp spec fn"]
    files = []
    kfile = os.path.join(BUILD, "verus", "kernel.rs")
    if os.path.exists(kfile):
        files.append(kfile)
    kd = os.path.join(VERIF, "kani", "incrate")
    if os.path.isdir(kd):
        files += [os.path.join(kd, f) for f in sorted(os.listdir(kd)) if f.endswith(".rs")]
    for f in files:
        counts = {}
        for i, ln in enumerate(open(f).read().split("\n"), 1):
            s = ln.strip()
            if s.startswith("//"):
                continue
            for p in pats:
                if re.search(p, ln):
                    counts.setdefault(p.replace("\\b", "").replace("\\(", "(").replace("\\[", "["), []).append(i)
        for p, lines in counts.items():
            found.append("%s: %s x%d (lines %s%s)" % (os.path.relpath(f, VERIF), p, len(lines), ",".join(map(str, lines[:8])),
                                                      ",..." if len(lines) > 8 else ""))
    return found


def evidence(pid, tier, results, vr, kr, undecided, n_viol, wall, assumptions):
    info = PROPS[pid]
    seed = int(os.environ.get("VERIF_SEED", "0") or 0)
    n = len(results)
    disc = [r for r in results if r["verdict"] in ("discharged",)]
    proved = [r for r in disc if r.get("strength") in ("P", "P-inst")]
    bounded = [r for r in disc if r.get("strength") == "B"]
    verus_obs = [r for r in results if r["backend"] == "verus"]
    kani_obs = [r for r in results if r["backend"] == "kani"]
    kani_checks = sum((r.get("checks") or 0) for r in kani_obs)
    samples = []
    for r in results[:60]:
        samples.append({k: r.get(k) for k in ("id", "backend", "verdict", "strength", "bound", "inst", "text", "source", "functions",
                                                "solver_ms", "solver_s", "checks", "covers", "note", "by") if r.get(k) not in (None, "", [])})
    unb = [r for r in results if r.get("strength") in ("P", "P-inst")]
    cov = dict(
        # bounded stand-ins are never counted as proved: obligations/discharged count the unbounded ones only
        obligations=len(unb),
        discharged=len(proved),
        obligations_total_including_bounded=n,
        discharged_total_including_bounded=len(disc),
        obligations_proved=len(proved),
        obligations_bounded=[dict(id=r["id"], bound=r.get("bound")) for r in bounded],
        obligations_verus=len(verus_obs),
        obligations_kani=len(kani_obs),
        undecided=undecided,
        checker_cmd="verus build/verus/kernel.rs --rlimit 100 --output-json --time-expanded ; cargo kani --exact --harness <h> (from /repo, target dir /verif/build/kani/target)",
        trusted_base=assumptions + (KANI_ASSUMPTIONS if kani_obs else []),
        assumption_scan=scan_assumptions(),
        clauses_not_covered=info.get("not_covered", []),
        samples=samples,
        evaluations=max(1, kani_checks + (vr or {}).get("verified", 0)),
        distinct_nontrivial=max(0, len(disc)),
        rule="one case = one machine-checked obligation (a Verus function/lemma query or a Kani harness with all its CBMC checks); "
             "non-trivial = discharged with >0 checks and every cover point reached; evaluations = CBMC checks + Verus queries",
        explanation="%d obligations (%d by Verus/Z3 for all inputs, %d by Kani/CBMC); %d discharged, of which %d without bound (P/P-inst) and %d bounded; see samples and obligations_bounded" % (
            n, len(verus_obs), len(kani_obs), len(disc), len(proved), len(bounded)),
        exhaustive=False,
    )
    if vr:
        cov["verus"] = dict(status=vr.get("status"), verified=vr.get("verified"), errors=vr.get("errors"), smt_ms=vr.get("smt_ms"),
                            wall_s=vr.get("wall_s"), cached=vr.get("cached", False), kernel_sha256=vr.get("kernel_sha256"),
                            kernel_lines=vr.get("kernel_lines"), extraction_drops=(vr.get("extract") or {}).get("drops"),
                            sources=(vr.get("extract") or {}).get("sources"), body_sha256=(vr.get("extract") or {}).get("body_sha256"),
                            version=vr.get("verus_version"))
    if kani_obs:
        cov["kani"] = dict(harnesses=len(kani_obs), checks=kani_checks,
                           solver_s=round(sum((r.get("solver_s") or 0) for r in kani_obs), 2),
                           duration_s=round(sum((r.get("duration_s") or 0) for r in kani_obs), 2),
                           cmd=(kr or {}).get("__cmd__"))
    level = info["level"]
    if level == "proof" and (len(proved) != len(unb) or len(disc) != n or not unb):
        # a proof-level claim needs every obligation discharged without bound; otherwise report honestly
        level = "other"
    ev = dict(property_id=pid, tier=tier, seed=seed, level=level, coverage=cov,
              assumptions=assumptions + (KANI_ASSUMPTIONS if kani_obs else []), wall_s=round(wall, 2), violations=n_viol)
    return ev
