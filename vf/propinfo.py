"""Per-property metadata and the evidence writer."""
import os
import re

from .common import BUILD, REPO, VERIF

BASE_ASSUMPTIONS = [
    "rustc type/borrow checking and monomorphisation; Verus 0.2026.09.13 + Z3; Kani 0.68 + CBMC 6.11 + CaDiCaL",
    "64-bit target only (Verus: `global size_of usize == 8`; Kani: x86_64)",
    "core::alloc::Layout invariant (align power of two, size+align-1 <= isize::MAX) is assumed for every Layout value (Verus: assume_specification on Layout::size/align; Kani: Layout::from_size_align is Ok)",
    "machine arithmetic is never treated as mathematical: Verus checks every exec + - * against usize bounds, wrapping/saturating/checked ops have vstd's machine semantics; Kani is bit-precise",
]

KANI_ASSUMPTIONS = [
    "CBMC memory model: distinct objects never alias, fresh memory is nondeterministic, addresses are object-base + offset",
    "kani::assume(pre) in harnesses is the contract's precondition; each harness carries cover points that must be SATISFIED (checked on every run)",
    "base allocators in pointer-level harnesses are models of a conforming allocator (LogAlloc / fixed buffers); a base allocator violating the Allocator contract is out of scope",
    "Kani has no unwinding semantics: clauses about panics/unwinding are not covered",
]

HOOK_COMMITS = ["0d1b28c"]

NOT_APPLICABLE = {
    "C04": "quantifies over safe *programs* and the oracle is rustc's accept/reject verdict (borrow/const checking); Verus and Kani both run after type checking with lifetimes erased, so no contract on a function of /repo can express it (DESIGN.md §4)",
    "C19": "quantifies over thread schedules; Kani has no thread support and Verus would need bump_pool.rs rewritten over its own Mutex/permission types, i.e. a model rather than the code (DESIGN.md §4)",
}

# level: evidence/manifest category; clauses_not_covered: stated in evidence; technique for MANIFEST
PROPS = {
    "C11": dict(
        level="proof",
        technique="Verus contracts (requires/ensures) on the mechanically extracted src/bumping.rs, discharged by Z3 for all inputs; property lemmas over the contracts; Kani full-domain twins for counterexamples",
        claim="Every function of src/bumping.rs carries a functional contract (exact result address and new position, None exactly when nothing fits, no arithmetic overflow) proved by Verus for all 64-bit inputs including the dummy range; tightness, nearest-block, hint independence and the prepare variants' maximality are Verus lemmas over those contracts; the same pre/post is re-checked by Kani on the real compiled functions (with their debug assertions) over the full domain. Unbounded proof is the right level because the input space (~2^200) is what tests cannot touch.",
        note="Trusted: Layout invariant (assume_specification on Layout::size/align), vstd specs of wrapping_sub/saturating_*/checked_*/NonZero, 64-bit usize, the textual extraction (drops listed in evidence; bodies re-located byte-identically), Z3/CBMC.",
        not_covered=[],
    ),
    "C12": dict(
        level="proof",
        technique="Verus contracts on the extracted src/chunk/size_config.rs + lemma fresh_chunk_fits over the size and bump contracts; Kani full-domain twins",
        manifest_level="proof",
        claim="All size computations of src/chunk/size_config.rs carry contracts proved by Verus for every header layout (align>=16,size>=32), hint, layout and direction: multiples of 16 (and of the header alignment downwards), large enough for header+request, None exactly on mathematical overflow (never wraps); lemma fresh_chunk_fits composes them with the C11 contracts: whatever is granted, the layout that caused a chunk is allocatable in it; grow_doubles gives >= 2*prev-16. Kani re-checks each function on the full domain and the whole chain on a stated bounded domain.",
        note="Trusted: as C11 plus assume_specification for usize::checked_next_power_of_two; cfg_valid (header align>=16, size>=32, multiple of align; overhead layout (16,8)) is what repr(C,align(16)) ChunkHeader<A> yields - checked per instantiation by Kani under C10. The end-to-end Kani chain harness is bounded (bound in evidence) and is not what the claim rests on.",
        not_covered=["pointer glue of NonDummyChunk::new/append_for (header placement) is checked by Kani harnesses under C10/C05, per instantiation"],
    ),
}


def scan_assumptions():
    """Mechanical scan for assume/admit/external_body/assume_specification/kani::assume/kani::stub."""
    found = []
    pats = [r"\bassume\(", r"\badmit\(", r"external_body", r"assume_specification", r"external_type_specification",
            r"kani::assume", r"kani::stub", r"#\[verifier::external", r"uninterp spec fn"]
    files = []
    kfile = os.path.join(BUILD, "verus", "kernel.rs")
    if os.path.exists(kfile):
        files.append(kfile)
    kd = os.path.join(VERIF, "kani", "incrate")
    if os.path.isdir(kd):
        files += [os.path.join(kd, f) for f in sorted(os.listdir(kd)) if f.endswith(".rs")]
    for f in files:
        counts = {}
        for i, ln in enumerate(open(f).read().split("\n"), 1):
            s = ln.strip()
            if s.startswith("//"):
                continue
            for p in pats:
                if re.search(p, ln):
                    counts.setdefault(p.replace("\\b", "").replace("\\(", "(").replace("\\[", "["), []).append(i)
        for p, lines in counts.items():
            found.append("%s: %s x%d (lines %s%s)" % (os.path.relpath(f, VERIF), p, len(lines), ",".join(map(str, lines[:8])),
                                                      ",..." if len(lines) > 8 else ""))
    return found


def evidence(pid, tier, results, vr, kr, undecided, n_viol, wall, assumptions):
    info = PROPS[pid]
    seed = int(os.environ.get("VERIF_SEED", "0") or 0)
    n = len(results)
    disc = [r for r in results if r["verdict"] in ("discharged",)]
    proved = [r for r in disc if r.get("strength") in ("P", "P-inst")]
    bounded = [r for r in disc if r.get("strength") == "B"]
    verus_obs = [r for r in results if r["backend"] == "verus"]
    kani_obs = [r for r in results if r["backend"] == "kani"]
    kani_checks = sum((r.get("checks") or 0) for r in kani_obs)
    samples = []
    for r in results[:60]:
        samples.append({k: r.get(k) for k in ("id", "backend", "verdict", "strength", "bound", "inst", "text", "source", "functions",
                                                "solver_ms", "solver_s", "checks", "covers", "note", "by") if r.get(k) not in (None, "", [])})
    unb = [r for r in results if r.get("strength") in ("P", "P-inst")]
    cov = dict(
        # bounded stand-ins are never counted as proved: obligations/discharged count the unbounded ones only
        obligations=len(unb),
        discharged=len(proved),
        obligations_total_including_bounded=n,
        discharged_total_including_bounded=len(disc),
        obligations_proved=len(proved),
        obligations_bounded=[dict(id=r["id"], bound=r.get("bound")) for r in bounded],
        obligations_verus=len(verus_obs),
        obligations_kani=len(kani_obs),
        undecided=undecided,
        checker_cmd="verus build/verus/kernel.rs --rlimit 100 --output-json --time-expanded ; cargo kani --exact --harness <h> (from /repo, target dir /verif/build/kani/target)",
        trusted_base=assumptions + (KANI_ASSUMPTIONS if kani_obs else []),
        assumption_scan=scan_assumptions(),
        clauses_not_covered=info.get("not_covered", []),
        samples=samples,
        evaluations=max(1, kani_checks + (vr or {}).get("verified", 0)),
        distinct_nontrivial=max(0, len(disc)),
        rule="one case = one machine-checked obligation (a Verus function/lemma query or a Kani harness with all its CBMC checks); "
             "non-trivial = discharged with >0 checks and every cover point reached; evaluations = CBMC checks + Verus queries",
        explanation="%d obligations (%d by Verus/Z3 for all inputs, %d by Kani/CBMC); %d discharged, of which %d without bound (P/P-inst) and %d bounded; see samples and obligations_bounded" % (
            n, len(verus_obs), len(kani_obs), len(disc), len(proved), len(bounded)),
        exhaustive=False,
    )
    if vr:
        cov["verus"] = dict(status=vr.get("status"), verified=vr.get("verified"), errors=vr.get("errors"), smt_ms=vr.get("smt_ms"),
                            wall_s=vr.get("wall_s"), cached=vr.get("cached", False), kernel_sha256=vr.get("kernel_sha256"),
                            kernel_lines=vr.get("kernel_lines"), extraction_drops=(vr.get("extract") or {}).get("drops"),
                            sources=(vr.get("extract") or {}).get("sources"), body_sha256=(vr.get("extract") or {}).get("body_sha256"),
                            version=vr.get("verus_version"))
    if kani_obs:
        cov["kani"] = dict(harnesses=len(kani_obs), checks=kani_checks,
                           solver_s=round(sum((r.get("solver_s") or 0) for r in kani_obs), 2),
                           duration_s=round(sum((r.get("duration_s") or 0) for r in kani_obs), 2),
                           cmd=(kr or {}).get("__cmd__"))
    level = info["level"]
    if level == "proof" and (len(proved) != len(unb) or len(disc) != n or not unb):
        # a proof-level claim needs every obligation discharged without bound; otherwise report honestly
        level = "other"
    ev = dict(property_id=pid, tier=tier, seed=seed, level=level, coverage=cov,
              assumptions=assumptions + (KANI_ASSUMPTIONS if kani_obs else []), wall_s=round(wall, 2), violations=n_viol)
    return ev
