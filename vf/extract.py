#!/usr/bin/env python3
"""Mechanical extraction of the integer kernel of /repo into one Verus file.

Reads the CURRENT working tree of the repository on every run and produces
    build/verus/kernel.rs = prelude.rs + extracted modules (inside verus!{}) + lemmas
The extraction is purely textual and brace matched.  It drops / rewrites exactly:

  D1  inner attributes `#![..]`, `//!` module docs, top-level `use ..;` items
  D2  `macro_rules! debug_assert_aligned / _ge / _le` definitions
  D3  every `debug_assert!`, `debug_assert_eq!`, `debug_assert_ne!`,
      `debug_assert_aligned!`, `debug_assert_ge!`, `debug_assert_le!` statement
  D4  outer attributes  #[inline..] #[cold] #[derive(Debug)] #[must_use] #[expect(..)] #[cfg(test)]-less
  D5  `pub(crate)` -> `pub`
  D6  contract splice: `fn f(..) -> T {`  ->  `fn f(..) -> (r: T) <contract text> {`
      (a `where` clause of the signature is kept, in front of the contract text)
  D7  (lib.rs only) only the listed helper functions are taken
  D8  (chunk/size.rs) `PhantomData<fn() -> (A, S)>` -> `PhantomData<(A, S)>` (no function pointer types in Verus)
  D9  (chunk/size.rs) top-level `const _: () = assert!(..);` items
  D10 (chunk/size.rs) `macro_rules! attempt` is moved, verbatim, in front of the `verus!{}` block
  D11 (chunk/size.rs) the associated const `ChunkSize::MINIMUM` (its initialiser calls `from_hint` at compile time,
      which Verus does not accept; `from_hint` itself stays under contract)
  The environment of chunk/size.rs that is NOT extracted is declared in verus/modheads/chunk_size.rs: the trait
  `BumpAllocatorSettings` reduced to the two associated consts read here, an opaque `ChunkHeader<A>`, trusted
  specifications of `Layout::new`, `Layout::from_size_align` and two layout axioms (each listed in the evidence).

Function bodies are otherwise byte-identical; this is re-checked for every function
(body_identity) and a SHA-256 of every source body is recorded in the report.
"""
import hashlib
import json
import os
import re
import sys

REPO = os.environ.get("VERIF_REPO", "/repo")
HERE = os.path.dirname(os.path.abspath(__file__))
VERIF = os.path.dirname(HERE)

DROPPED_ATTR = re.compile(
    r"^[ \t]*#\[(inline(\([a-z]+\))?|cold|derive\(Debug\)|must_use|expect\([^\]]*\))\][ \t]*\n", re.M
)
DBG = re.compile(r"\bdebug_assert(?:_[a-z]+)?!\s*\(")


class ExtractError(Exception):
    pass


def match_close(text, i, open_ch, close_ch):
    """text[i] == open_ch; return index of the matching close (skips strings/comments/char lits)."""
    assert text[i] == open_ch, (text[i], open_ch)
    depth = 0
    n = len(text)
    j = i
    while j < n:
        c = text[j]
        if c == "/" and text.startswith("//", j):
            j = text.index("\n", j)
            continue
        if c == "/" and text.startswith("/*", j):
            j = text.index("*/", j) + 2
            continue
        if c == '"':
            j += 1
            while text[j] != '"':
                if text[j] == "\\":
                    j += 1
                j += 1
            j += 1
            continue
        if c == "'":
            # char literal or lifetime
            m = re.match(r"'(\\.|[^\\'])'", text[j:])
            if m:
                j += m.end()
                continue
        if c == open_ch:
            depth += 1
        elif c == close_ch:
            depth -= 1
            if depth == 0:
                return j
        j += 1
    raise ExtractError("unbalanced %s%s" % (open_ch, close_ch))


def drop_debug_asserts(text, counter):
    out = []
    pos = 0
    while True:
        m = DBG.search(text, pos)
        if not m:
            out.append(text[pos:])
            break
        # is it inside a line comment?
        ls = text.rfind("\n", 0, m.start()) + 1
        if "//" in text[ls:m.start()]:
            out.append(text[pos:m.end()])
            pos = m.end()
            continue
        close = match_close(text, m.end() - 1, "(", ")")
        end = close + 1
        # swallow optional ; and the rest of the line if it is blank
        m2 = re.match(r"[ \t]*;?", text[end:])
        end += m2.end()
        # remove leading indentation of the statement when it starts a line
        start = m.start()
        if text[ls:start].strip() == "":
            start = ls
            m3 = re.match(r"[ \t]*\n", text[end:])
            if m3:
                end += m3.end()
        out.append(text[pos:start])
        pos = end
        counter["D3_debug_assert_statements"] = counter.get("D3_debug_assert_statements", 0) + 1
    return "".join(out)


def drop_macro_defs(text, counter):
    while True:
        m = re.search(r"^macro_rules!\s+(debug_assert_[a-z]+)\s*\{", text, re.M)
        if not m:
            return text
        close = match_close(text, m.end() - 1, "{", "}")
        end = close + 1
        if text[end:end + 1] == "\n":
            end += 1
        text = text[: m.start()] + text[end:]
        counter["D2_macro_definitions"] = counter.get("D2_macro_definitions", 0) + 1


PHANTOM_FN = re.compile(r"PhantomData<fn\(\) -> (\([^)]*\))>")


def rewrite_phantom_fn(text, counter):
    """D8: `PhantomData<fn() -> (A, S)>` -> `PhantomData<(A, S)>` (Verus has no function pointer types; the marker
    is zero-sized and never read)."""
    n = len(PHANTOM_FN.findall(text))
    if n:
        counter["D8_phantom_fn_markers"] = counter.get("D8_phantom_fn_markers", 0) + n
    return PHANTOM_FN.sub(r"PhantomData<\1>", text)


def drop_const_asserts(text, counter):
    """D9: top-level `const _: () = assert!(..);` items (compile-time checks, no run-time code)."""
    rx = re.compile(r"^const _: \(\) = assert!\([^;]*\);[ \t]*\n", re.M)
    n = len(rx.findall(text))
    if n:
        counter["D9_const_assert_items"] = counter.get("D9_const_assert_items", 0) + n
    return rx.sub("", text)


def drop_assoc_consts(text, counter):
    """D11: associated `const NAME: Self = match <call> {..};` items inside impl blocks (their initialiser calls an
    exec function at compile time, which Verus does not accept; the functions they call stay under contract)."""
    while True:
        m = re.search(r"^[ \t]+pub const [A-Z_]+: Self = match [^{]*\{", text, re.M)
        if not m:
            return text
        close = match_close(text, m.end() - 1, "{", "}")
        end = text.index(";", close) + 1
        if text[end:end + 1] == "\n":
            end += 1
        text = text[: m.start()] + text[end:]
        counter["D11_associated_const_items"] = counter.get("D11_associated_const_items", 0) + 1


def hoist_macros(text, counter, hoisted):
    """D10: other `macro_rules!` definitions are moved, verbatim, in front of the `verus!{}` block
    (the verus! macro does not accept macro definitions inside it)."""
    while True:
        m = re.search(r"^macro_rules!\s+([a-z_]+)\s*\{", text, re.M)
        if not m:
            return text
        close = match_close(text, m.end() - 1, "{", "}")
        end = close + 1
        if text[end:end + 1] == "\n":
            end += 1
        hoisted.append(text[m.start():end])
        text = text[: m.start()] + text[end:]
        counter["D10_macro_definitions_hoisted"] = counter.get("D10_macro_definitions_hoisted", 0) + 1


def drop_header(text, counter):
    # inner attributes
    def cnt(key):
        counter[key] = counter.get(key, 0) + 1

    out_lines = []
    lines = text.split("\n")
    i = 0
    while i < len(lines):
        ln = lines[i]
        s = ln.strip()
        if s.startswith("#!["):
            cnt("D1_inner_attributes")
            i += 1
            continue
        if s.startswith("//!"):
            cnt("D1_module_doc_lines")
            i += 1
            continue
        if re.match(r"^use\s", ln):
            # top-level use item, up to ';'
            j = i
            while ";" not in lines[j]:
                j += 1
            cnt("D1_use_items")
            i = j + 1
            continue
        out_lines.append(ln)
        i += 1
    return "\n".join(out_lines)


def drop_attrs(text, counter):
    n = len(DROPPED_ATTR.findall(text))
    counter["D4_outer_attributes"] = counter.get("D4_outer_attributes", 0) + n
    return DROPPED_ATTR.sub("", text)


def pub_crate(text, counter):
    n = text.count("pub(crate)")
    counter["D5_pub_crate"] = counter.get("D5_pub_crate", 0) + n
    return text.replace("pub(crate)", "pub")


FN_RE = re.compile(r"\bfn\s+([A-Za-z_][A-Za-z0-9_]*)\s*(<[^>(]*>)?\s*\(")


def find_functions(text):
    """Yield dicts(name, qual, sig_start, body_open, body_close) for every fn item with a body."""
    res = []
    # impl blocks for qualification
    impls = []
    for m in re.finditer(r"^impl(?:<[^>]*>)?\s+([A-Za-z_][A-Za-z0-9_]*)[^{;]*\{", text, re.M):
        close = match_close(text, m.end() - 1, "{", "}")
        impls.append((m.end() - 1, close, m.group(1)))
    for m in FN_RE.finditer(text):
        ls = text.rfind("\n", 0, m.start()) + 1
        if "//" in text[ls:m.start()]:
            continue
        popen = m.end() - 1
        pclose = match_close(text, popen, "(", ")")
        # find body open: first '{' after pclose that is not inside a where clause generic (simple here)
        k = pclose + 1
        while text[k] not in "{;":
            k += 1
        if text[k] == ";":
            continue
        bopen = k
        bclose = match_close(text, bopen, "{", "}")
        qual = m.group(1)
        for (io, ic, ty) in impls:
            if io < m.start() < ic:
                qual = ty + "::" + m.group(1)
        # signature start: beginning of the line holding `fn` (includes pub/const qualifiers)
        res.append(
            dict(name=m.group(1), qual=qual, line_start=ls, fn_kw=m.start(), params_close=pclose, body_open=bopen, body_close=bclose)
        )
    return res


def norm_ws(s):
    return re.sub(r"\s+", " ", s).strip()


def load_contracts(path):
    """Contract file: blocks starting with `@fn <qual>` ; everything until next `@fn`/EOF is spec text."""
    contracts = {}
    if not os.path.exists(path):
        return contracts
    cur = None
    buf = []
    for ln in open(path).read().split("\n"):
        if ln.startswith("@fn "):
            if cur:
                contracts[cur] = "\n".join(buf).rstrip() + "\n"
            cur = ln[4:].strip()
            buf = []
        elif ln.startswith("@@"):
            continue  # comment
        elif cur is not None:
            buf.append(ln)
    if cur:
        contracts[cur] = "\n".join(buf).rstrip() + "\n"
    return contracts


def splice_contracts(text, contracts, counter, report, modname):
    fns = find_functions(text)
    used = set()
    # process from the end so offsets stay valid
    for f in sorted(fns, key=lambda f: -f["fn_kw"]):
        spec = contracts.get(f["qual"])
        if spec is None:
            continue
        used.add(f["qual"])
        sig_tail = text[f["params_close"] + 1 : f["body_open"]]
        where = ""
        mw = re.search(r"\n\s*where\b", sig_tail)
        if mw:
            where = sig_tail[mw.start():].rstrip()
            if not where.endswith(","):
                where += ","
            sig_tail = sig_tail[: mw.start()]
        m = re.match(r"\s*->\s*(.*?)\s*$", sig_tail, re.S)
        if m:
            new_tail = " -> (r: %s)%s\n%s" % (m.group(1), where, spec)
        else:
            if sig_tail.strip() != "":
                raise ExtractError("unexpected signature tail for %s: %r" % (f["qual"], sig_tail))
            new_tail = "\n%s" % spec
        text = text[: f["params_close"] + 1] + new_tail + text[f["body_open"] :]
        counter["D6_contract_splices"] = counter.get("D6_contract_splices", 0) + 1
    missing = sorted(set(contracts) - used)
    report.setdefault("lost_anchors", []).extend("%s::%s" % (modname, q) for q in missing)
    return text


def extract_named_items(text, names):
    """For lib.rs: take only the listed fns (with their leading doc comments / attributes)."""
    fns = {f["qual"]: f for f in find_functions(text)}
    parts = []
    lost = []
    for n in names:
        f = fns.get(n)
        if f is None:
            lost.append(n)
            continue
        # walk back over attribute/doc lines
        start = f["line_start"]
        while True:
            prev_end = start - 1
            if prev_end <= 0:
                break
            prev_start = text.rfind("\n", 0, prev_end) + 1
            s = text[prev_start:prev_end].strip()
            if s.startswith("#[") or s.startswith("///"):
                start = prev_start
            else:
                break
        parts.append(text[start : f["body_close"] + 1] + "\n")
    return "\n".join(parts), lost


def body_hashes(src_text, out_text, counter_dummy, report, modname, only=None):
    """Re-locate every function body of the output in the source (after the listed drops)."""
    src_fns = {f["qual"]: f for f in find_functions(src_text)}
    out_fns = {f["qual"]: f for f in find_functions(out_text)}
    hashes = {}
    for q, of in out_fns.items():
        sf = src_fns.get(q)
        if sf is None:
            raise ExtractError("function %s in output but not in source" % q)
        sbody = src_text[sf["body_open"] : sf["body_close"] + 1]
        obody = out_text[of["body_open"] : of["body_close"] + 1]
        c = {}
        expect = pub_crate(drop_attrs(drop_debug_asserts(sbody, c), c), c)
        if norm_ws(expect) != norm_ws(obody):
            raise ExtractError("body identity check failed for %s::%s" % (modname, q))
        hashes["%s::%s" % (modname, q)] = hashlib.sha256(sbody.encode()).hexdigest()
    report.setdefault("body_sha256", {}).update(hashes)


MODULES = [
    # (module name in the verus file, source path relative to repo, list of fns or None for whole file)
    ("bumping", "src/bumping.rs", None),
    ("size_config", "src/chunk/size_config.rs", None),
    ("libhelpers", "src/lib.rs", ["up_align_usize_unchecked", "down_align_usize", "bump_down", "min_non_zero_cap", "align_pos"]),
    ("chunk_size", "src/chunk/size.rs", None),
]


def extract_module(modname, relpath, names, report, hoisted=None):
    src = open(os.path.join(REPO, relpath)).read()
    counter = {}
    text = src
    if names is not None:
        text, lost = extract_named_items(text, names)
        report.setdefault("lost_anchors", []).extend("%s::%s" % (modname, n) for n in lost)
        counter["D7_items_taken"] = len(names) - len(lost)
    else:
        text = drop_header(text, counter)
    text = drop_macro_defs(text, counter)
    text = hoist_macros(text, counter, hoisted if hoisted is not None else [])
    text = drop_const_asserts(text, counter)
    text = drop_assoc_consts(text, counter)
    text = drop_debug_asserts(text, counter)
    text = drop_attrs(text, counter)
    text = pub_crate(text, counter)
    body_hashes(src, text, None, report, modname)
    text = rewrite_phantom_fn(text, counter)
    contracts = load_contracts(os.path.join(VERIF, "verus", "contracts", modname + ".spec"))
    text = splice_contracts(text, contracts, counter, report, modname)
    report.setdefault("drops", {})[modname] = counter
    report.setdefault("sources", {})[modname] = dict(
        path=relpath, sha256=hashlib.sha256(src.encode()).hexdigest(), lines=src.count("\n")
    )
    return text


def indent(text, n=4):
    pad = " " * n
    return "\n".join((pad + l if l.strip() else l) for l in text.split("\n"))


def build(out_path, report_path=None):
    report = {}
    prelude = open(os.path.join(VERIF, "verus", "prelude.rs")).read()
    parts = [prelude, "", "\nverus! {\n"]
    hoisted = []
    for modname, relpath, names in MODULES:
        body = extract_module(modname, relpath, names, report, hoisted)
        header_path = os.path.join(VERIF, "verus", "modheads", modname + ".rs")
        header = open(header_path).read() if os.path.exists(header_path) else ""
        parts.append("pub mod %s {\n%s\n%s\n}\n\n" % (modname, indent(header), indent(body)))
    parts.append("} // verus!\n\n")
    parts[1] = "\n// ---- macro definitions hoisted out of the extracted modules (D10) ----\n" + "".join(hoisted)
    ldir = os.path.join(VERIF, "verus", "lemmas")
    for fn in sorted(os.listdir(ldir)) if os.path.isdir(ldir) else []:
        if fn.endswith(".rs"):
            parts.append("// ---- lemmas/%s ----\n" % fn)
            parts.append(open(os.path.join(ldir, fn)).read())
            parts.append("\n")
    parts.append("fn main() {}\n")
    os.makedirs(os.path.dirname(out_path), exist_ok=True)
    open(out_path, "w").write("".join(parts))
    if report_path:
        json.dump(report, open(report_path, "w"), indent=1, sort_keys=True)
    return report


if __name__ == "__main__":
    out = sys.argv[1] if len(sys.argv) > 1 else os.path.join(VERIF, "build", "verus", "kernel.rs")
    try:
        rep = build(out, out + ".extract.json")
    except ExtractError as e:
        print("EXTRACT-ERROR: %s" % e)
        sys.exit(2)
    print(json.dumps(rep.get("drops"), indent=1))
    if rep.get("lost_anchors"):
        print("LOST-ANCHORS: %s" % rep["lost_anchors"])
        sys.exit(2)
