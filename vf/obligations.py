"""Obligation registry: which machine-checked obligation belongs to which property.

VERUS: one entry per function of the generated kernel file that carries a contract (kind
'contract', the function is code of /repo) or is a property-level lemma over contracts (kind
'lemma').  `twin` names the Kani harnesses that discharge the same pre/post on the full
64-bit domain (used for counterexamples and for the PROOF-DRIFT rule).

KANI: one entry per harness.  strength:
   P       complete: loop-free harness over the full symbolic domain of the function's inputs
   P-inst  complete for the listed monomorphic instantiation(s) (settings / allocator / element type)
   B       bounded stand-in; `bound` states the bound.  Never counted as proved.
"""

V = []  # verus obligations
K = []  # kani obligations


def v(fn, kind, props, source=None, twin=(), text=""):
    V.append(dict(id="V:" + fn.replace("kernel::", ""), fn=fn, kind=kind, props=list(props), source=source,
                  twin=list(twin), text=text))


def k(harness, props, fns, strength, text, tier="quick", bound=None, timeout=900, inst=None, should_panic=False):
    K.append(dict(id="K:" + harness, harness=harness, props=list(props), fns=list(fns), strength=strength, text=text,
                  tier=tier, bound=bound, timeout=timeout, inst=inst, should_panic=should_panic))


# ----------------------------------------------------------------------------- Layer I, Verus
B = "kernel::bumping::"
S = "kernel::size_config::"
L = "kernel::libhelpers::"

v(B + "bump_up", "contract", ["C11", "C01", "C07", "C17"], "src/bumping.rs::bump_up", ["h_kernel::k_bump_up"],
  "requires props_valid(props, up); ensures r == Some{ptr: up(start,align), new_pos: up(ptr+size, min_align)} iff ptr+size <= end else None; no overflow")
v(B + "bump_down", "contract", ["C11", "C01", "C07", "C17"], "src/bumping.rs::bump_down", ["h_kernel::k_bump_down"],
  "ensures r == Some(down(end-size, max(align,min_align))) iff end>=size and that is >= start, else None; no overflow")
v(B + "bump_prepare_up", "contract", ["C11", "C01", "C15"], "src/bumping.rs::bump_prepare_up", ["h_kernel::k_bump_prepare_up"],
  "size % align == 0 ==> r == Some(up(start,align)..down(end,align)) iff up(start,align)+size <= end else None")
v(B + "bump_prepare_down", "contract", ["C11", "C01", "C15"], "src/bumping.rs::bump_prepare_down", ["h_kernel::k_bump_prepare_down"],
  "size % align == 0 ==> r == Some(up(start,align)..down(end,align)) iff down(end,align)-size >= start else None")
v(B + "down_align", "contract", ["C11"], "src/bumping.rs::down_align", [], "r == down(addr, align)")
v(B + "up_align_unchecked", "contract", ["C11"], "src/bumping.rs::up_align_unchecked", [], "addr+align-1 <= MAX ==> r == up(addr, align)")
v(B + "up_align", "contract", ["C11"], "src/bumping.rs::up_align", [], "None iff addr == 0 or up(addr,align) > MAX; Some(up(addr,align))")
v(B + "unlikely", "contract", ["C11"], "src/bumping.rs::unlikely", [], "r == condition")
for f, t in [("c11_up_some", "success upward: aligned, nearest, inside range, new_pos in range, past the block, multiple of min_align"),
             ("c11_up_none", "tight upward: None ==> no aligned block of that size in the range"),
             ("c11_up_hints", "result independent of truthful hints (upward)"),
             ("c11_down_some", "success downward"), ("c11_down_none", "tight downward w.r.t. the requested alignment alone"),
             ("c11_down_hints", "result independent of truthful hints (downward)"),
             ("c11_prepare_up", "prepare upward: largest sub-range with aligned ends, >= request; None ==> nothing fits"),
             ("c11_prepare_down", "prepare downward: same"),
             ("witness_props_valid", "vacuity guard: props_valid is satisfiable; concrete results")]:
    v("kernel::c11::" + f, "lemma", ["C11", "C01"], None, [], t)
v("kernel::c11::dummy_range_fails", "lemma", ["C11", "C14"], None, [], "start == end+16 ==> all four return None for every layout")

v(S + "ChunkSizeConfig::align_size", "contract", ["C12", "C05", "C10"], "src/chunk/size_config.rs::align_size", ["h_kernel::k_align_size"],
  "r == down(size, up ? 16 : max(16, header_align))")
v(S + "ChunkSizeConfig::calc_size_from_hint", "contract", ["C12", "C05", "C07", "C10"], "src/chunk/size_config.rs::calc_size_from_hint",
  ["h_kernel::k_calc_size_from_hint"],
  "Some(s): s%16==0, s%size_align==0, s >= max(hint,min)-16, s >= header size, bounded above; None iff the mathematical size exceeds usize")
v(S + "ChunkSizeConfig::calc_hint_from_capacity", "contract", ["C12", "C07"], "src/chunk/size_config.rs::calc_hint_from_capacity",
  ["h_kernel::k_calc_hint_from_capacity"], "exact formula overhead+header+size+padding+16 (per direction); None iff it exceeds usize")
v(S + "ChunkSizeConfig::calc_hint_from_capacity_bytes", "contract", ["C12", "C07"], "src/chunk/size_config.rs::calc_hint_from_capacity_bytes",
  ["h_kernel::k_calc_hint_from_capacity"], "exact formula; None iff overflow")
v(S + "offset_add_layout", "contract", ["C12"], "src/chunk/size_config.rs::offset_add_layout", [], "up(offset, align)+size; None iff overflow")
v(S + "up_align", "contract", ["C12"], "src/chunk/size_config.rs::up_align", [], "Some(up(addr,align)); None iff overflow")
v(S + "down_align", "contract", ["C12"], "src/chunk/size_config.rs::down_align", [], "down(addr, align)")
v(S + "max", "contract", ["C12"], "src/chunk/size_config.rs::max", [], "max")
for f, t, ps in [("fresh_chunk_fits", "for every header layout, direction, min align, over-grant: the layout that caused a chunk fits in it; chunk size between requested and granted", ["C12", "C05", "C10"]),
                 ("grow_doubles", "size_from_hint(>= 2*prev) >= 2*prev-16 > prev", ["C12", "C10"]),
                 ("size_overflow_is_error", "None ==> mathematical overflow", ["C12", "C07"]),
                 ("up_from_coarser", "helper", ["C12"]), ("down_from_coarser", "helper", ["C12"]),
                 ("witness_cfg", "vacuity guard: cfg_valid satisfiable", ["C12"])]:
    v("kernel::c12::" + f, "lemma", ps, None, [], t)

v(L + "align_pos", "contract", ["C18", "C13", "C10"], "src/lib.rs::align_pos", ["h_kernel::k_align_pos"], "r == up ? up(pos,min_align) : down(pos,min_align)")
v(L + "up_align_usize_unchecked", "contract", ["C18", "C13"], "src/lib.rs::up_align_usize_unchecked", [], "up(addr, align)")
v(L + "down_align_usize", "contract", ["C18", "C13"], "src/lib.rs::down_align_usize", [], "down(addr, align)")
v(L + "bump_down", "contract", ["C13", "C02"], "src/lib.rs::bump_down", ["h_kernel::k_lib_bump_down"], "down(max(addr-size,0), align)")
v(L + "min_non_zero_cap", "contract", ["C08"], "src/lib.rs::min_non_zero_cap", [], "8 / 4 / 1 by element size")
v("kernel::c13::realloc_same_address_up", "lemma", ["C13"], None, [], "size%min_align==0: block ends at new_pos; position reset to align_pos(ptr) re-yields ptr")
v("kernel::c13::realloc_same_address_down", "lemma", ["C13"], None, [], "downward twin")
v("kernel::c18::align_pos_in_range", "lemma", ["C18", "C10"], None, [], "align_pos result: multiple of m, moves < m in bump direction, stays inside a range with 16-aligned far end, idempotent")

# ----------------------------------------------------------------------------- Layer I twins, Kani (full domain)
k("h_kernel::k_bump_up", ["C11", "C01"], ["bumping::bump_up"], "P",
  "pre: Props::valid(up) (all start/end/size/align/min_align/hints of the 64-bit domain); post_bump_up; debug_asserts of the real fn")
k("h_kernel::k_bump_down", ["C11", "C01"], ["bumping::bump_down"], "P", "post_bump_down on the full domain")
k("h_kernel::k_bump_prepare_up", ["C11", "C01", "C15"], ["bumping::bump_prepare_up"], "P", "post_prepare_up on the full domain")
k("h_kernel::k_bump_prepare_down", ["C11", "C01", "C15"], ["bumping::bump_prepare_down"], "P", "post_prepare_down on the full domain")
k("h_kernel::k_align_size", ["C12", "C05"], ["chunk::size_config::ChunkSizeConfig::align_size"], "P", "align_size == down(size, size_align) for every header layout (align 16..2^63)")
k("h_kernel::k_calc_size_from_hint", ["C12", "C07", "C10"], ["chunk::size_config::ChunkSizeConfig::calc_size_from_hint"], "P",
  "all clauses of calc_size_from_hint_post for every hint and header layout")
k("h_kernel::k_calc_hint_from_capacity", ["C12", "C07"], ["chunk::size_config::ChunkSizeConfig::calc_hint_from_capacity", "chunk::size_config::ChunkSizeConfig::calc_hint_from_capacity_bytes"], "P",
  "exact formula, None iff the sum exceeds usize, for every layout and header layout")
k("h_kernel::k_align_pos", ["C18", "C13"], ["align_pos"], "P", "align_pos == least/greatest multiple in bump direction, full domain")
k("h_kernel::k_lib_bump_down", ["C13", "C02"], ["bump_down (lib.rs)"], "P", "down(max(addr-size,0), align), full domain")
k("h_kernel::k_fresh_chunk_fits", ["C12", "C05", "C10"], ["calc_hint_from_capacity", "calc_size_from_hint", "align_size", "bump_up", "bump_down", "bump_prepare_up", "bump_prepare_down"], "B",
  "the real size chain followed by the real bump on the fresh range returns Some; chunk size between requested and granted",
  tier="quick", bound="header align<=256, header size<=512, layout size<2^16, align<=2^12, extra hint<2^17, over-grant<=4096, address<2^40", timeout=1800)


def for_property(pid, tier):
    vs = [o for o in V if pid in o["props"]]
    ks = [o for o in K if pid in o["props"] and (tier == "thorough" or o["tier"] == "quick")]
    return vs, ks
