"""Obligation registry: which machine-checked obligation belongs to which property.

VERUS: one entry per function of the generated kernel file that carries a contract (kind
'contract', the function is code of /repo) or is a property-level lemma over contracts (kind
'lemma').  `twin` names the Kani harnesses that discharge the same pre/post on the full
64-bit domain (used for counterexamples and for the PROOF-DRIFT rule).

KANI: one entry per harness.  strength:
   P       complete: loop-free harness over the full symbolic domain of the function's inputs
   P-inst  complete for the listed monomorphic instantiation(s) (settings / allocator / element type)
   B       bounded stand-in; `bound` states the bound.  Never counted as proved.
"""

V = []  # verus obligations
K = []  # kani obligations


def v(fn, kind, props, source=None, twin=(), text=""):
    V.append(dict(id="V:" + fn.replace("kernel::", ""), fn=fn, kind=kind, props=list(props), source=source,
                  twin=list(twin), text=text))


def k(harness, props, fns, strength, text, tier="quick", bound=None, timeout=900, inst=None, should_panic=False):
    K.append(dict(id="K:" + harness, harness=harness, props=list(props), fns=list(fns), strength=strength, text=text,
                  tier=tier, bound=bound, timeout=timeout, inst=inst, should_panic=should_panic))


# ----------------------------------------------------------------------------- Layer I, Verus
# private helpers have no harness of their own (not nameable from the harness module): their twins are the full-domain
# twins of every public function that uses them - a helper contract that Verus no longer proves after a harmless edit
# is discharged when all of those still hold on the full domain (PROOF-DRIFT rule), and a defect shows up there.
_BT = ["h_kernel::k_bump_up", "h_kernel::k_bump_down", "h_kernel::k_bump_prepare_up", "h_kernel::k_bump_prepare_down"]
_ST = ["h_kernel::k_align_size", "h_kernel::k_calc_size_from_hint", "h_kernel::k_calc_hint_from_capacity"]
B = "kernel::bumping::"
S = "kernel::size_config::"
L = "kernel::libhelpers::"

v(B + "bump_up", "contract", ["C11", "C01", "C07", "C17"], "src/bumping.rs::bump_up", ["h_kernel::k_bump_up"],
  "requires props_valid(props, up); ensures r == Some{ptr: up(start,align), new_pos: up(ptr+size, min_align)} iff ptr+size <= end else None; no overflow")
v(B + "bump_down", "contract", ["C11", "C01", "C07", "C17"], "src/bumping.rs::bump_down", ["h_kernel::k_bump_down"],
  "ensures r == Some(down(end-size, max(align,min_align))) iff end>=size and that is >= start, else None; no overflow")
v(B + "bump_prepare_up", "contract", ["C11", "C01", "C15"], "src/bumping.rs::bump_prepare_up", ["h_kernel::k_bump_prepare_up"],
  "size % align == 0 ==> r == Some(up(start,align)..down(end,align)) iff up(start,align)+size <= end else None")
v(B + "bump_prepare_down", "contract", ["C11", "C01", "C15"], "src/bumping.rs::bump_prepare_down", ["h_kernel::k_bump_prepare_down"],
  "size % align == 0 ==> r == Some(up(start,align)..down(end,align)) iff down(end,align)-size >= start else None")
v(B + "down_align", "contract", ["C11"], "src/bumping.rs::down_align", _BT, "r == down(addr, align)")
v(B + "up_align_unchecked", "contract", ["C11"], "src/bumping.rs::up_align_unchecked", _BT, "addr+align-1 <= MAX ==> r == up(addr, align)")
v(B + "up_align", "contract", ["C11"], "src/bumping.rs::up_align", _BT, "None iff addr == 0 or up(addr,align) > MAX; Some(up(addr,align))")
v(B + "unlikely", "contract", ["C11"], "src/bumping.rs::unlikely", _BT, "r == condition")
v("kernel::c12_typed::typed_fresh_chunk_fits", "lemma", ["C12", "C05"], None, [],
  "for EVERY allocator type A and settings S: the chunk ChunkSize::<A,S>::from_capacity(l) sizes, granted with at least that size and recorded through align_allocation_size, has room for l in bump direction; recorded size between requested and granted, multiple of 16, >= header")
# ---- src/chunk/size.rs: the typed layer over ChunkSizeConfig (unbounded, every A and S)
Z = "kernel::chunk_size::"
_ZT = ["h_kernel::k_fresh_chunk_fits"]
_ZA = ["h_kernel3::k_align_allocation_size_zst_up", "h_kernel3::k_align_allocation_size_zst_dn", "h_kernel3::k_align_allocation_size_a64_dn", "h_kernel3::k_align_allocation_size_a64_up"]
_ZH = ["h_kernel3::k_from_hint_zst_up", "h_kernel3::k_from_hint_a64_dn", "h_kernel3::k_from_hint_a24_dn_min4096"]
_ZC = ["h_kernel3::k_from_capacity_zst_up", "h_kernel3::k_from_capacity_a64_dn"]
v(Z + "config", "contract", ["C12", "C05", "C10"], "src/chunk/size.rs::config", _ZA + _ZH, "the configuration of (A, S): up == S::UP, header layout = Layout::new::<ChunkHeader<A>>(), overhead (16, 8); satisfies cfg_valid")
v(Z + "max", "contract", ["C12"], "src/chunk/size.rs::max", _ZH, "max")
v(Z + "ChunkSizeHint::new", "contract", ["C12"], "src/chunk/size.rs::ChunkSizeHint::new", _ZH, "stores the hint")
v(Z + "ChunkSizeHint::calc_size", "contract", ["C12", "C05", "C07"], "src/chunk/size.rs::ChunkSizeHint::calc_size", _ZH,
  "the size calc_size_from_hint prescribes for max(hint, S::MINIMUM_CHUNK_SIZE) under the configuration of (A, S): multiple of 16 (and of the header alignment when downward), >= header, >= hint - 16, None only when it does not fit usize")
v(Z + "ChunkSizeHint::for_capacity", "contract", ["C12", "C07"], "src/chunk/size.rs::ChunkSizeHint::for_capacity", _ZC, "the hint a capacity request needs (header + padding + bytes + overhead); None iff it exceeds usize")
v(Z + "ChunkSizeHint::max", "contract", ["C12"], "src/chunk/size.rs::ChunkSizeHint::max", [], "the larger hint")
v(Z + "ChunkSize::from_hint", "contract", ["C12", "C05", "C07"], "src/chunk/size.rs::ChunkSize::from_hint", _ZH, "same as ChunkSizeHint::calc_size")
v(Z + "ChunkSize::from_capacity", "contract", ["C12", "C07"], "src/chunk/size.rs::ChunkSize::from_capacity", _ZC,
  "a chunk sized for a capacity request is sized for the hint that request needs; None only on overflow")
v(Z + "ChunkSize::align_allocation_size", "contract", ["C12", "C05", "C10"], "src/chunk/size.rs::ChunkSize::align_allocation_size", _ZA,
  "the size recorded for a granted block is the granted size rounded DOWN to 16 (and to the header alignment when downward): never more than was granted")
v(Z + "ChunkSize::layout", "contract", ["C05", "C12"], "src/chunk/size.rs::ChunkSize::layout", _ZH, "Some iff the size fits a Layout of the header alignment; then exactly (size, align_of ChunkHeader<A>)")

for f, t in [("c11_up_some", "success upward: aligned, nearest, inside range, new_pos in range, past the block, multiple of min_align"),
             ("c11_up_none", "tight upward: None ==> no aligned block of that size in the range"),
             ("c11_up_hints", "result independent of truthful hints (upward)"),
             ("c11_down_some", "success downward"), ("c11_down_none", "tight downward w.r.t. the requested alignment alone"),
             ("c11_down_hints", "result independent of truthful hints (downward)"),
             ("c11_prepare_up", "prepare upward: largest sub-range with aligned ends, >= request; None ==> nothing fits"),
             ("c11_prepare_down", "prepare downward: same"),
             ("witness_props_valid", "vacuity guard: props_valid is satisfiable; concrete results")]:
    v("kernel::c11::" + f, "lemma", ["C11", "C01"], None, [], t)
v("kernel::c11::dummy_range_fails", "lemma", ["C11", "C14"], None, [], "start == end+16 ==> all four return None for every layout")

v(S + "ChunkSizeConfig::align_size", "contract", ["C12", "C05", "C10"], "src/chunk/size_config.rs::align_size", ["h_kernel::k_align_size"],
  "r == down(size, up ? 16 : max(16, header_align))")
v(S + "ChunkSizeConfig::calc_size_from_hint", "contract", ["C12", "C05", "C07", "C10"], "src/chunk/size_config.rs::calc_size_from_hint",
  ["h_kernel::k_calc_size_from_hint"],
  "Some(s): s%16==0, s%size_align==0, s >= max(hint,min)-16, s >= header size, bounded above; None iff the mathematical size exceeds usize")
v(S + "ChunkSizeConfig::calc_hint_from_capacity", "contract", ["C12", "C07"], "src/chunk/size_config.rs::calc_hint_from_capacity",
  ["h_kernel::k_calc_hint_from_capacity"], "exact formula overhead+header+size+padding+16 (per direction); None iff it exceeds usize")
v(S + "ChunkSizeConfig::calc_hint_from_capacity_bytes", "contract", ["C12", "C07"], "src/chunk/size_config.rs::calc_hint_from_capacity_bytes",
  ["h_kernel::k_calc_hint_from_capacity"], "exact formula; None iff overflow")
v(S + "offset_add_layout", "contract", ["C12"], "src/chunk/size_config.rs::offset_add_layout", _ST, "up(offset, align)+size; None iff overflow")
v(S + "up_align", "contract", ["C12"], "src/chunk/size_config.rs::up_align", _ST, "Some(up(addr,align)); None iff overflow")
v(S + "down_align", "contract", ["C12"], "src/chunk/size_config.rs::down_align", _ST, "down(addr, align)")
v(S + "max", "contract", ["C12"], "src/chunk/size_config.rs::max", _ST, "max")
for f, t, ps in [("fresh_chunk_fits", "for every header layout, direction, min align, over-grant: the layout that caused a chunk fits in it; chunk size between requested and granted", ["C12", "C05", "C10"]),
                 ("grow_doubles", "size_from_hint(>= 2*prev) >= 2*prev-16 > prev", ["C12", "C10"]),
                 ("size_overflow_is_error", "None ==> mathematical overflow", ["C12", "C07"]),
                 ("up_from_coarser", "helper", ["C12"]), ("down_from_coarser", "helper", ["C12"]),
                 ("witness_cfg", "vacuity guard: cfg_valid satisfiable", ["C12"])]:
    v("kernel::c12::" + f, "lemma", ps, None, [], t)

v(L + "align_pos", "contract", ["C18", "C13", "C10"], "src/lib.rs::align_pos", ["h_kernel::k_align_pos"], "r == up ? up(pos,min_align) : down(pos,min_align)")
v(L + "up_align_usize_unchecked", "contract", ["C18", "C13"], "src/lib.rs::up_align_usize_unchecked", ["h_kernel2::k_up_align_usize_unchecked"], "up(addr, align)")
v(L + "down_align_usize", "contract", ["C18", "C13"], "src/lib.rs::down_align_usize", ["h_kernel2::k_down_align_usize"], "down(addr, align)")
v(L + "bump_down", "contract", ["C13", "C02", "C07"], "src/lib.rs::bump_down", ["h_kernel::k_lib_bump_down"], "down(max(addr-size,0), align)")
v(L + "min_non_zero_cap", "contract", ["C08"], "src/lib.rs::min_non_zero_cap", ["h_kernel2::k_min_non_zero_cap"], "r >= 1 (the amortisation policy itself is not prescribed by any property)")
v("kernel::c13::realloc_same_address_up", "lemma", ["C13"], None, [], "size%min_align==0: block ends at new_pos; position reset to align_pos(ptr) re-yields ptr")
v("kernel::c13::realloc_same_address_down", "lemma", ["C13"], None, [], "downward twin")
v("kernel::c18::align_pos_in_range", "lemma", ["C18", "C10"], None, [], "align_pos result: multiple of m, moves < m in bump direction, stays inside a range with 16-aligned far end, idempotent")

# ----------------------------------------------------------------------------- Layer I twins, Kani (full domain)
k("h_kernel::k_bump_up", ["C11", "C01"], ["bumping::bump_up"], "P",
  "pre: Props::valid(up) (all start/end/size/align/min_align/hints of the 64-bit domain); post_bump_up; debug_asserts of the real fn")
k("h_kernel::k_bump_down", ["C11", "C01"], ["bumping::bump_down"], "P", "post_bump_down on the full domain")
k("h_kernel::k_bump_prepare_up", ["C11", "C01", "C15"], ["bumping::bump_prepare_up"], "P", "post_prepare_up on the full domain")
k("h_kernel::k_bump_prepare_down", ["C11", "C01", "C15"], ["bumping::bump_prepare_down"], "P", "post_prepare_down on the full domain")
k("h_kernel::k_align_size", ["C12", "C05"], ["chunk::size_config::ChunkSizeConfig::align_size"], "P", "align_size == down(size, size_align) for every header layout (align 16..2^63)")
k("h_kernel::k_calc_size_from_hint", ["C12", "C07", "C10"], ["chunk::size_config::ChunkSizeConfig::calc_size_from_hint"], "P",
  "all clauses of calc_size_from_hint_post for every hint and header layout")
k("h_kernel::k_calc_hint_from_capacity", ["C12", "C07"], ["chunk::size_config::ChunkSizeConfig::calc_hint_from_capacity", "chunk::size_config::ChunkSizeConfig::calc_hint_from_capacity_bytes"], "P",
  "exact formula, None iff the sum exceeds usize, for every layout and header layout")
k("h_kernel::k_align_pos", ["C18", "C13"], ["align_pos"], "P", "align_pos == least/greatest multiple in bump direction, full domain")
k("h_kernel::k_lib_bump_down", ["C13", "C02"], ["bump_down (lib.rs)"], "P", "down(max(addr-size,0), align), full domain")
k("h_kernel::k_fresh_chunk_fits", ["C12", "C05", "C10"], ["calc_hint_from_capacity", "calc_size_from_hint", "align_size", "bump_up", "bump_down", "bump_prepare_up", "bump_prepare_down"], "B",
  "the real size chain followed by the real bump on the fresh range returns Some; chunk size between requested and granted",
  tier="quick", bound="header align<=256, header size<=512, layout size<2^16, align<=2^12, extra hint<2^17, over-grant<=4096, address<2^40", timeout=1800)


# ----------------------------------------------------------------------------- Layer II, Kani (pointer level)
# All of these start from an ARBITRARY well-formed state of a K-chunk arena (state.rs): symbolic current
# chunk, symbolic position of every chunk, nondeterministic memory contents, symbolic layouts / live blocks.
# Bounded dimensions (=> strength B): chunk sizes are literals (48/112/240 bytes or as stated), K <= 3,
# layout sizes as stated, the settings / allocator instantiation in `inst`.
import re as _re


def _arena_h():
    import os as _os
    here = _os.path.dirname(_os.path.dirname(_os.path.abspath(__file__)))
    out = []
    for f in ("h_arena", "h_realloc", "h_scope", "h_typed"):
        pth = _os.path.join(here, "kani", "incrate", f + ".rs")
        if not _os.path.exists(pth):
            continue
        txt = open(pth).read()
        for m in _re.finditer(r"inst!\((\w+),(?: unwind (\d+),)? (\w+), ([^;]*?)\);", txt):
            out.append((f, m.group(1), m.group(3), m.group(4)))
        for m in _re.finditer(r"#\[kani::proof\]\n(?:#\[kani::unwind\(\d+\)\]\n)?(?:#\[kani::should_panic\]\n)?pub\(crate\) fn (\w+)\(\) \{\n    (\w+)::<([^;]*?)>\(([^;]*?)\);", txt):
            out.append((f, m.group(1), m.group(2), m.group(3) + " | " + m.group(4)))
        # rmatrix!( name: MIN_ALIGN, UP, Op, old, new; ... )  (h_realloc.rs, thorough)
        for m in _re.finditer(r"^\s+(\w+_t): (\d+), (true|false), (Op::\w+), (\d+), (\d+)", txt, _re.M):
            out.append((f, m.group(1), "ob_realloc", "LogAlloc, MIN_ALIGN=%s UP=%s, %s, old<=%s new<=%s" % (m.group(2), m.group(3), m.group(4), m.group(5), m.group(6))))
        # matrix!( name: ob_fn, Alloc, MIN_ALIGN, UP, DEALLOCATES, (args); ... )
        for m in _re.finditer(r"^\s+(\w+): (ob_\w+), ([\w<>]+), (\d+), (true|false), (true|false), \(([^)]*)\)", txt, _re.M):
            out.append((f, m.group(1), m.group(2), "%s, MIN_ALIGN=%s UP=%s DEALLOCATES=%s, (%s)" % (m.group(3), m.group(4), m.group(5), m.group(6), m.group(7))))
    return out


_OB = {
    # generic fn: (props, functions under contract, contract text, bound)
    "ob_chunk_alloc": (["C01", "C02", "C10", "C07"], ["raw_bump::RawChunk::alloc", "raw_bump::RawChunk::bump_props", "raw_bump::NonDummyChunk::set_pos_addr", "raw_bump::NonDummyChunk::new"],
                       "Some(p): p aligned, inside the free range, nearest (kernel contract), new pos past the block & MIN_ALIGN-aligned; None: nothing changes and nothing fits; frame: only the current pos moves; no content byte written (witness byte); allocated set only grows; wf after; constructors establish wf",
                       "literal chunk sizes, K<=2, layout size<=600, align<=128"),
    "ob_chunk_prepare": (["C15", "C01", "C10"], ["raw_bump::RawChunk::prepare_allocation", "raw_bump::RawChunk::prepare_allocation_range"],
                         "no header field changes; result inside the free range, aligned; range = [least aligned >= free start, greatest aligned <= free end] >= request; None only if nothing fits",
                         "one chunk of 240/496 bytes, layout size<=300, align<=128"),
    "ob_reset_to": (["C03", "C05", "C02", "C10"], ["bump_scope_guard::Checkpoint::new", "bump_scope_guard::Checkpoint::reset_within_chunk", "raw_bump::RawBump::checkpoint", "raw_bump::RawBump::reset_to"],
                    "from ANY later state (current chunk >= checkpoint chunk, all later positions arbitrary): current chunk, position and allocated byte count exactly as at the checkpoint; no other header field changes; no content byte written; base allocator never called; all chunks still owned",
                    "K=2 (48+112 bytes)"),
    "ob_claim": (["C14", "C10"], ["raw_bump::RawBump::claim", "raw_bump::RawBump::reclaim", "raw_bump::RawBump::is_claimed", "raw_bump::RawChunk::classify", "allocator_impl::deallocate", "allocator_impl::shrink", "raw_bump::RawBump::{alloc,alloc_sized,alloc_slice,prepare_*,reserve,make_allocated}", "stats::Stats::*"],
                 "claim: original becomes the claimed dummy, guard holds the old chunk, no header touched; on the claimed handle every request fails (AllocError), deallocate/shrink of any block of any real chunk change nothing and return the block, stats all zero; reclaim: original continues at the guard's chunk, no header touched, wf",
                 "K<=2, ZST base allocator (see DESIGN: dummy header cast)"),
    "ob_align_to": (["C18", "C10"], ["raw_bump::RawBump::align_to", "align_pos"],
                    "pos' = least/greatest multiple of M in bump direction (no-op when M <= MIN_ALIGN), inside the chunk, allocated grows by < M, nothing else changes, wf",
                    "K<=2"),
    "ob_deallocate": (["C13", "C01", "C02", "C10", "C16"], ["allocator_impl::deallocate", "allocator_impl::is_last", "allocator_impl::deallocate_assume_last", "raw_bump::NonDummyChunk::set_pos_addr_and_align"],
                      "for ANY block inside the allocated region: DEALLOCATES && newest block => pos' = align_pos(block start / end), only the block is reclaimed; otherwise no header field changes and allocated bytes unchanged; never writes content; wf",
                      "K<=2, block size<=200, align<=32"),
    "ob_bump_alloc": (["C01", "C02", "C07", "C10", "C12", "C05", "C03", "C15"], ["raw_bump::RawBump::alloc", "raw_bump::RawBump::alloc_in_another_chunk", "raw_bump::RawBump::in_another_chunk", "raw_bump::NonDummyChunk::append_for", "raw_bump::NonDummyChunk::new", "raw_bump::NonDummyChunk::grow_size", "raw_bump::NonDummyChunk::reset"],
                      "Ok: aligned, inside owned memory, block was free; served from a later chunk only after that chunk's position was reset, earlier chunks untouched; or exactly one new chunk appended, request fits in it (unreachable_unchecked never reached), links symmetric, strictly larger, >= 2*prev-16; Err (failing base allocator): no chunk leaked, invariant holds, current chunk valid; allocated set only grows; no content byte written; nothing released",
                      "K<=3, layout size<=200, align<=64, base allocator fails nondeterministically"),
    "ob_bump_alloc_nogrow": (["C01", "C02", "C07", "C10", "C03", "C15"], ["raw_bump::RawBump::alloc", "raw_bump::RawBump::in_another_chunk"],
                             "same contract with a base allocator that refuses every further chunk",
                             "K=2, layout size<=200"),
    "ob_reset": (["C03", "C05", "C10"], ["raw_bump::RawBump::reset", "raw_bump::NonDummyChunk::deallocate", "raw_bump::NonDummyChunk::layout", "raw_bump::NonDummyChunk::for_each_prev", "raw_bump::RawBump::manually_drop"],
                 "exactly the last (largest) chunk stays, every other grant released exactly once with the same alignment and a size between requested and granted; remaining chunk unlinked and empty; then manually_drop returns the last one: every grant returned exactly once",
                 "K<=3"),
    "ob_reset_to_start_and_drop": (["C03", "C05", "C10", "C14"], ["raw_bump::RawBump::reset_to_start", "raw_bump::RawBump::manually_drop", "raw_bump::NonDummyChunk::for_each_next"],
                                   "first chunk current at its start, nothing allocated, nothing released, later chunks untouched, wf; manually_drop from ANY current chunk returns every grant exactly once (fitting layout)",
                                   "K<=3"),
    "ob_stats": (["C10"], ["stats::Stats::*", "stats::Chunk::*", "stats::any::AnyStats::*", "stats::any::AnyChunk::*", "raw_bump::NonDummyChunk::{size,capacity,allocated,remaining,chunk_start,chunk_end,content_start,content_end}"],
                 "count/size/capacity/allocated/remaining equal the sums over the grant-derived geometry; allocated+remaining == capacity <= size; per chunk ranges equal the geometry; forward and backward iteration are reverses; AnyChunk/AnyStats report the same numbers and ranges as the typed ones",
                 "K<=3; allocators: ZST, 8-byte, align-32"),
    "ob_realloc": (["C02", "C01", "C13", "C16", "C07", "C10"], ["allocator_impl::grow", "allocator_impl::grow_zeroed", "allocator_impl::shrink", "allocator_impl::align_fits", "without_dealloc::WithoutShrink::shrink", "without_dealloc::WithoutDealloc::{grow,shrink}", "bump_down (lib.rs)"],
                   "for ANY live sub-block and independent old/new alignments: result aligned, >= requested, inside owned memory; first min(old,new) bytes preserved (witness index); no byte outside the new block written (witness byte); new block disjoint from every other allocated byte; other allocated bytes stay allocated; grow_zeroed tail zero; upward newest block with room grows in place; shrinking a non-newest block reclaims nothing; SHRINKS=false / WithoutShrink never decrease allocated; Err only when the base allocator refuses and then nothing is written; wf",
                   "one chunk of 48 bytes (quick) / 48+112 bytes (thorough), old size<=8..24, new size<=12..32, old align<=16, new align<=32, base allocator refuses further chunks"),
    "ob_allocate_zeroed": (["C02", "C01"], ["alloc::Allocator::allocate_zeroed (default method) for BumpScope", "allocator_impl::allocate"],
                           "block aligned and >= requested; every byte of it reads 0 although the memory was nondeterministic before; no byte outside it written; wf",
                           "K=2, size<=40"),
    "ob_scope_guard": (["C03", "C05", "C10", "C01"], ["bump_scope_guard::BumpScopeGuard::{new,scope,reset,drop}", "traits::BumpAllocator::{scope_guard,scoped}", "raw_bump::RawBump::{checkpoint,reset_to,alloc}"],
                       "after a nondeterministic workload inside (nothing / allocations that may move to the next chunk), guard reset and guard drop / closure return restore current chunk, position and allocated byte count exactly; earlier chunks untouched; every byte allocated before is still allocated and unchanged; nothing released; wf",
                       "K=2 (48+112 bytes), <=2 allocations of <=40 bytes inside, base allocator refuses new chunks"),
    "ob_aligned": (["C18", "C03", "C10"], ["traits::BumpAllocatorScope::aligned", "traits::BumpAllocator::scoped_aligned", "bump_align_guard::BumpAlignGuard::{new,drop}", "raw_bump::RawBump::align"],
                   "inside: position multiple of N at entry and after every allocation; after aligned: position multiple of the outer MIN_ALIGN, never moved backwards; after scoped_aligned: exactly the entry position and byte count; earlier data intact; wf",
                   "K=2, (outer,inner) in {(1,16),(8,1),(8,2)} aligned, {(1,16),(1,8)} scoped_aligned, <=2 allocations of <=24 bytes"),
    "ob_try_with": (["C03", "C15", "C01", "C07", "C10"], ["bump_scope::BumpScope::generic_alloc_try_with", "bump_scope::BumpScope::generic_alloc_try_with_mut", "bump_scope::BumpScope::generic_alloc_uninit", "raw_bump::RawBump::prepare_sized_allocation"],
                    "closure Err: error passed through and position, current chunk, byte count exactly as before; closure Ok: value stored, aligned, allocated, position = end (up) / start (down) of the value aligned to MIN_ALIGN; allocation failure: earlier allocations kept; wf",
                    "K=2, T=u32, E=u8"),
    "ob_unallocated": (["C05", "C10", "C07", "C03", "C12"], ["raw_bump::RawBump::new", "raw_bump::RawBump::{stats,checkpoint,reset,reset_to_start,align_to,reset_to}", "raw_bump::RawBump::in_another_chunk (Unallocated arm)", "raw_bump::NonDummyChunk::new"],
                       "unallocated arena: stats all zero, non-allocating calls never call the base allocator; first allocation creates exactly one chunk in which the request fits (or fails leaving the arena unallocated); the unallocated checkpoint rewinds to the start of the first chunk",
                       "layout size<=300, align<=64, upward"),
    "ob_unallocated_drop": (["C05", "C07"], ["raw_bump::RawBump::{alloc,reserve,make_allocated,manually_drop}"],
                            "refused first chunk: Err, arena stays unallocated; dropping releases nothing", "downward, MIN_ALIGN 4"),
    "ob_claim_unallocated": (["C14"], ["raw_bump::RawBump::{new,claim,reclaim,is_claimed}"],
                             "claiming an unallocated arena: guard holds the unallocated state, original fails; after reclaim the original is unclaimed, continues at the guard's (still unallocated) state and can be claimed again",
                             "loop-free; ZST base allocator"),
    "ob_entry_pair": (["C17", "C10"], ["raw_bump::RawBump::{alloc,alloc_sized,alloc_slice,alloc_slice_for}", "allocator_impl::allocate", "traits::BumpAllocatorTyped::{try_allocate_layout,try_allocate_sized} (BumpScope, dyn BumpAllocatorCore)", "Allocator::allocate for BumpScope / &BumpScope / WithoutDealloc / WithoutShrink<WithoutDealloc> / dyn BumpAllocatorCore", "traits::BumpAllocatorTypedScope::{try_alloc,alloc,try_alloc_slice_copy}", "layout::{SizedLayout,ArrayLayout,CustomLayout}"],
                      "relational: from the same arbitrary state the entry point yields the same success/failure, the same block address, the same new position and current chunk as RawBump::alloc with the layout it stands for; value-level results (stored value / copied slice) equal; wf",
                      "one chunk of 112 bytes (one instantiation: 48+112), T=[u16;3] / u32 x n<=5 / symbolic layout <=24 bytes, base allocator refuses new chunks"),
    "ob_prepared_slice": (["C15", "C01", "C10", "C18", "C02"], ["traits::BumpAllocatorTyped::{try_prepare_slice_allocation,allocate_prepared_slice,try_prepare_slice_allocation_rev,allocate_prepared_slice_rev} (BumpScope)", "traits::BumpAllocatorCore::{prepare_allocation,allocate_prepared,prepare_allocation_rev,allocate_prepared_rev} (BumpScope)", "raw_bump::RawBump::{prepare_slice_allocation,prepare_slice_allocation_rev,prepare_allocation_range}"],
                          "prepare and filling change no header field; capacity >= requested, range inside the free part; commit yields exactly len elements equal to the pushed ones (in order; reversed pushing for _rev), block inside the prepared range at its bump-side end, position = end/start of the block aligned to MIN_ALIGN, advance < size + padding; wf",
                          "one chunk of 48 bytes, T=u16, cap request <=3, len<=cap"),
    "ob_overflow_and_reserve": (["C07"], ["raw_bump::RawBump::{alloc_slice,prepare_slice_allocation,prepare_allocation_range,reserve}", "layout::ArrayLayout::array"],
                                "a slice length whose byte size exceeds isize::MAX is an error (no panic, no wrap) for every usize length; reserve with a refusing base allocator moves nothing and is Ok iff the remaining capacity suffices; invariant holds, nothing leaked",
                                "K=2, base allocator refuses new chunks; lengths over the full usize domain"),
    "ob_raw_round_trip": (["C05"], ["raw_bump::RawBump::{into_raw,from_raw}"], "from_raw(into_raw(b)) has the same chunk pointer; no header touched, no base-allocator call", "K=2"),
    "ob_with_settings_allocated": (["C18", "C10"], ["raw_bump::RawBump::{ensure_satisfies_settings,ensure_satisfies_settings_for_borrow_mut,align_to}"],
                                   "on an allocated, unclaimed arena the conversion returns, the position is a multiple of the new (and old) minimum alignment, allocated bytes grow by < 16, wf; borrow_mut conversion is then the identity",
                                   "K=2, (1->16 up), (1->8 down)"),
    "ob_with_settings_unallocated": (["C18"], ["raw_bump::RawBump::ensure_satisfies_settings"],
                                     "conversion to GUARANTEED_ALLOCATED on an unallocated arena never returns (panics); conversion keeping GUARANTEED_ALLOCATED=false returns and the arena stays unallocated",
                                     "loop-free"),
    "ob_mut_vec": (["C15", "C08", "C01", "C18"], ["mut_bump_vec::MutBumpVec::{new_in,try_push,generic_grow_amortized,generic_grow_to,into_slice,into_slice_ptr,drop}", "mut_bump_vec_rev::MutBumpVecRev::{new_in,try_push,generic_grow_amortized,generic_grow_to,into_slice,into_slice_ptr,drop}", "fixed_bump_vec::raw::RawFixedBumpVec::*"],
                   "pushing (including the growth that prepares a bigger range) never moves the bump position; dropping an unfinalised vector leaves the position where it was; into_slice yields exactly the pushed elements (rev: last pushed first), allocated, position advanced by contents + padding < max(align, MIN_ALIGN); len/capacity consistent; wf",
                   "one chunk of 48 bytes, element u16, <=3 pushes, base allocator refuses new chunks"),
    "ob_mut_vec_failed_grow": (["C07", "C15", "C10"], ["mut_bump_vec::MutBumpVec::{try_push,try_reserve,generic_grow_amortized,generic_grow_to,into_slice}", "raw_bump::RawBump::{prepare_slice_allocation,prepare_allocation_range,in_another_chunk}", "traits::BumpAllocatorCore::allocate_prepared (BumpScope)"],
                               "a reservation that fails (no chunk fits, base allocator refuses) after the slow path looked at a cached later chunk: length and contents unchanged, current chunk unchanged, into_slice still yields the elements inside allocated memory, allocated bytes account for the slice, wf; a reservation that succeeds in the later chunk keeps the elements",
                               "K=2 (48+112 bytes), element u8, <=2 pushes, reserve <=400"),
    "ob_prepared_slice_dyn": (["C15", "C17", "C01", "C18", "C02"], ["traits::bump_allocator_typed::for_trait_object::{prepare_slice_allocation,allocate_prepared_slice,prepare_slice_allocation_rev,allocate_prepared_slice_rev}", "traits::BumpAllocatorCore::{prepare_allocation,allocate_prepared,prepare_allocation_rev,allocate_prepared_rev} (BumpScope)"],
                              "the same prepare/fill/commit contract as ob_prepared_slice through `dyn BumpAllocatorCore` (generic commit path); since both entry points satisfy the same functional postcondition they are interchangeable",
                              "one chunk of 48 bytes, T=u16, cap request <=3, len<=cap"),
    "ob_overgrant": (["C05", "C10", "C12", "C01"], ["raw_bump::NonDummyChunk::{new,layout,deallocate}", "chunk::size::ChunkSize::align_allocation_size", "chunk::size_config::ChunkSizeConfig::align_size", "raw_bump::RawChunk::alloc", "raw_bump::RawBump::manually_drop"],
                     "base allocator granting more than requested (a non-multiple of 16): constructors establish wf w.r.t. the grant-derived geometry, chunk size between requested and granted and uses the extra memory, alloc stays inside the content, stats coherent, every chunk released once with a fitting size (checked inside the allocator model)",
                     "K<=3, over-grant 8/24/40 bytes"),
    "ob_second_claim_panics": (["C14"], ["raw_bump::RawBump::claim"], "a second claim does not return (panics)", "should_panic harness"),
    "ob_with_settings_allocated_w": (["C18", "C10"], ["raw_bump::RawBump::{ensure_satisfies_settings,ensure_scope_satisfies_settings,ensure_satisfies_settings_for_borrow_mut,align_to}"],
                                     "each of the three conversions (Bump::with_settings, BumpScope::with_settings, borrow_mut_with_settings; target settings guaranteed-allocated or not) on an allocated, unclaimed arena returns with the position a multiple of the new (and old) minimum alignment, allocated bytes grow by < 16, wf",
                                     "K<=2, (1->8 up), (1->16 down), (1->8 down)"),
    "ob_append_growth": (["C12", "C10", "C05"], ["raw_bump::NonDummyChunk::{append_for,grow_size,new}", "chunk::size::{ChunkSizeHint::for_capacity,ChunkSize}"],
                         "append_for with an over-granting base allocator: the appended chunk holds the layout that caused it, its size is a multiple of 16 and at least twice the previous chunk's size less 16; chunks linked both ways; every chunk returned once",
                         "one chunk of 64+24 granted bytes (power-of-two size regime; page-sized chunks exhaust CBMC), layout size <= 40, align <= 16"),
    "ob_by_value_unallocated": (["C05", "C07", "C12"], ["bump_scope::BumpScope::{by_value,try_by_value}", "raw_bump::RawBump::{make_allocated,manually_drop}"],
                                "by_value / try_by_value on an unallocated arena: exactly one chunk is created, it is the ORIGINAL's current chunk afterwards, allocations through the by-value scope are visible in the original, dropping the original releases every chunk exactly once",
                                "loop-free; first chunk of the minimum size"),
    "ob_by_value_allocated": (["C05", "C10"], ["bump_scope::BumpScope::try_by_value", "raw_bump::RawBump::make_allocated"],
                              "on an arena with chunks by_value creates nothing, shares the current chunk and leaves the arena unchanged; wf", "K=2"),
    "ob_typed_dealloc": (["C13", "C17", "C10"], ["traits::BumpAllocatorTyped::dealloc (provided method and every override)", "without_dealloc::WithoutDealloc::{deallocate}", "without_shrink::WithoutShrink", "allocator_impl::deallocate"],
                         "typed dealloc(BumpBox) of the newest box: through the plain scope (and WithoutShrink alone) it is reclaimed and the same layout gets the same address again; through WithoutDealloc at any nesting depth / behind a reference, and with DEALLOCATES=false, allocated bytes, position and current chunk never change; wf",
                         "K=1 (128-byte hint), one u32 box"),
    "ob_claim_guard": (["C14", "C10"], ["bump_claim_guard::BumpClaimGuard::{new,deref,deref_mut,drop}", "traits::BumpAllocatorScope::claim", "raw_bump::RawBump::{reserve,make_allocated,prepare_slice_allocation,alloc_slice}"],
                       "while the guard lives the original is claimed and EVERY request on it fails (alloc, alloc_slice, reserve of any amount incl. 0, make_allocated, prepare_slice_allocation of any capacity); allocations through the guard stay live; a scope opened through the guard is fully undone; after drop the original is unclaimed and continues on a real chunk; wf",
                       "K=2, <=1 allocation through the guard and <=1 inside its inner scope"),
}

# duplicates of a quick obligation that are slow: thorough tier only
_THOROUGH = {"mut_vec_dn8", "mut_vec_rev_up8", "scope_guard_dn8", "scoped_closure_up8", "claim_guard_dn8", "aligned_up8_to2", "scoped_aligned_up1_to8",
             "bump_alloc_up8_k3", "stats_up1_zst_k3"}

# harnesses that exist in the files but gave no verdict on the unchanged tree within the thorough timeout (40 min) /
# memory limit (14 GB); kept out of the registry so that every registered command exits 0 on the unchanged tree
_PRUNED = {"shrink_dn1_k2", "grow_dn8_k2", "grow_dn1_k2"}

for (_f, _name, _gen, _args) in _arena_h():
    if _gen not in _OB or _name.startswith("exp_") or _name in _PRUNED:
        continue
    _props, _fns, _text, _bound = _OB[_gen]
    _thorough = (_f == "h_realloc" and (_name.endswith("_k2") or _name.endswith("_128") or _name.endswith("_t"))) or _name in _THOROUGH
    k("%s::%s" % (_f, _name), _props, _fns, "B", _text, tier=("thorough" if _thorough else "quick"), bound=_bound,
      timeout=(2400 if _thorough else (1800 if _gen == "ob_mut_vec" else 900)), inst=_args)

# ----------------------------------------------------------------------------- collections over fixed buffers (h_coll.rs)
_CB = "len<=4 (drop counting: len<=3), capacity 5, element type u8 / drop-counting token, fixed local buffer"
for _n, _p, _fns, _t in [
    ("vec_remove_pop_truncate", ["C08"], ["bump_box::BumpBox<[T]>::{remove,swap_remove,pop,truncate,clear}"], "same return value, length and contents as std::vec::Vec for every in-range index"),
    ("vec_retain_dedup", ["C08"], ["bump_box::BumpBox<[T]>::{retain,dedup,dedup_by}"], "same contents as Vec::retain / Vec::dedup"),
    ("fixed_vec_push_insert_extend", ["C08", "C07"], ["fixed_bump_vec::FixedBumpVec::{try_push,try_insert,try_extend_from_slice_copy,try_resize,capacity,len}"], "same contents as Vec after push/insert/extend/resize within capacity; capacity >= len; buffer address and capacity never change"),
    ("fixed_vec_full_fails", ["C08", "C07"], ["fixed_bump_vec::FixedBumpVec::{try_push,try_insert,try_extend_from_slice_copy,try_resize,is_full}"], "a full fixed vector reports an error for every growing operation and keeps length and contents"),
    ("zst_capacity_unlimited", ["C08"], ["fixed_bump_vec::FixedBumpVec::<()>::{new,capacity,try_push,pop}"], "zero-sized elements: capacity usize::MAX"),
    ("split_at_first_last", ["C16"], ["bump_box::BumpBox<[T]>::{split_at,split_first,split_last}"], "parts adjacent, in order, lengths add up, elements in order; None only when empty"),
    ("merge_restores_whole", ["C16"], ["bump_box::BumpBox<[T]>::merge", "bump_box::BumpBox<[T]>::split_at"], "merge of the two adjacent parts of split_at is the original slice (address, length, every element)"),
    ("merge_non_adjacent_panics", ["C16"], ["bump_box::BumpBox<[T]>::merge"], "merging non-adjacent parts never returns (must-not-reach cover unsatisfiable; panics)"),
    ("split_off_first_last_and_spare", ["C16"], ["bump_box::BumpBox<[T]>::{split_off_first,split_off_last}", "fixed_bump_vec::FixedBumpVec::split_at_spare"], "element + rest partition the slice in order; split_at_spare: initialized part and spare capacity adjacent, lengths add up to the capacity"),
    ("split_off_all_ranges_len3", ["C16", "C08", "C06", "C01"], ["bump_box::BumpBox<[T]>::split_off", "polyfill::slice::range"], "for EVERY range lo..hi of a slice of length 3 (symbolic element values): lengths add up, the part is the range in order, the rest keeps its order, parts adjacent and inside the original"),
    ("split_off_all_ranges_len4", ["C16", "C08", "C06", "C01"], ["bump_box::BumpBox<[T]>::split_off"], "the same for length 4"),
    ("split_off_all_ranges_len5", ["C16", "C08", "C06", "C01"], ["bump_box::BumpBox<[T]>::split_off"], "the same for length 5"),
    ("split_off_all_ranges_len6", ["C16", "C08", "C06", "C01"], ["bump_box::BumpBox<[T]>::split_off"], "the same for length 6"),
    ("fixed_split_off_all_ranges_len4", ["C16", "C08", "C06", "C01"], ["fixed_bump_vec::FixedBumpVec::split_off"], "for EVERY range of a fixed vector of length 4 / capacity 6: lengths and capacities add up, capacity >= len, part and rest in order, buffers disjoint and inside the original"),
    ("fixed_split_off_all_ranges_len5", ["C16", "C08", "C06", "C01"], ["fixed_bump_vec::FixedBumpVec::split_off"], "the same for length 5"),
    ("fixed_split_off_all_ranges_len6", ["C16", "C08", "C06", "C01"], ["fixed_bump_vec::FixedBumpVec::split_off"], "the same for length 6 (full)"),
    ("drops_clear", ["C06"], ["bump_box::BumpBox<[T]>::clear", "Drop for BumpBox"], "every element dropped exactly once"),
    ("drops_truncate", ["C06"], ["bump_box::BumpBox<[T]>::truncate"], "every element dropped exactly once"),
    ("drops_remove", ["C06"], ["bump_box::BumpBox<[T]>::remove"], "removed value not dropped until the caller drops it; every element dropped exactly once"),
    ("drops_swap_remove", ["C06"], ["bump_box::BumpBox<[T]>::swap_remove"], "every element dropped exactly once"),
    ("drops_pop", ["C06"], ["bump_box::BumpBox<[T]>::pop"], "every element dropped exactly once"),
    ("drops_retain", ["C06"], ["bump_box::BumpBox<[T]>::retain"], "every element dropped exactly once"),
    ("leak_routes_skip_drop", ["C06"], ["bump_box::BumpBox::{leak,into_raw}"], "the explicit leak routes drop nothing"),
    ("into_iter_drops_rest", ["C06"], ["owned_slice::into_iter::IntoIter::{next,next_back,drop}"], "partially consumed IntoIter (both ends): every element dropped exactly once"),
]:
    k("h_coll::" + _n, _p, _fns, "B", _t, bound=(_CB if "all_ranges" not in _n else "concrete length (3..6) and every concrete range, element values symbolic (u8)"), timeout=900)

# concrete-shape obligations (h_coll2.rs): length / index / range enumerated inside the harness, element values symbolic
_C2 = "concrete length (stated in the name) with every index / range enumerated inside the harness; element values symbolic (u8) or drop-counting tokens; buffer of 6"
for _n, _p, _fns, _t in [
    ("drain_all_ranges_len2", ["C08"], ["bump_box::BumpBox<[T]>::drain", "owned_slice::drain::Drain::{new,next,next_back,drop}"], "for every range: consumed from the front / from the back / not at all, the drain yields the same elements as Vec::drain and leaves the same rest"),
    ("drain_all_ranges_len3", ["C08"], ["bump_box::BumpBox<[T]>::drain"], "same, length 3"),
    ("drain_all_ranges_len4", ["C08"], ["bump_box::BumpBox<[T]>::drain"], "same, length 4"),
    ("index_ops_len0", ["C08", "C07"], ["fixed_bump_vec::FixedBumpVec::{try_insert,remove,swap_remove,try_extend_from_within_copy,try_resize,dedup_by_key,retain}"], "at every index / for every range: same result and contents as std::vec::Vec; extend_from_within succeeds iff it fits and otherwise changes nothing"),
    ("index_ops_len2", ["C08", "C07"], ["fixed_bump_vec::FixedBumpVec::*"], "same, length 2"),
    ("index_ops_len3", ["C08", "C07"], ["fixed_bump_vec::FixedBumpVec::*"], "same, length 3"),
    ("index_ops_len5", ["C08", "C07"], ["fixed_bump_vec::FixedBumpVec::*"], "same, length 5"),
    ("partition_map_flatten_len3", ["C16", "C08"], ["bump_box::BumpBox<[T]>::{partition,map_in_place,into_flattened}", "polyfill::iter::partition_in_place"], "partition: every element exactly once (witness value count), left satisfies / right does not, parts adjacent; map_in_place (same and smaller layout) and into_flattened keep count and order"),
    ("partition_map_flatten_len4", ["C16", "C08"], ["bump_box::BumpBox<[T]>::{partition,map_in_place,into_flattened}"], "same, length 4"),
    ("partition_map_flatten_len6", ["C16", "C08"], ["bump_box::BumpBox<[T]>::{partition,map_in_place,into_flattened}"], "same, length 6"),
    ("drops_all_ranges_len2", ["C06", "C08"], ["bump_box::BumpBox<[T]>::{split_off,drain,extract_if,dedup_by}", "owned_slice::{drain::Drain,extract_if::ExtractIf}"], "for every range: split_off (parts dropped in either order), drain consumed k=0..n elements then dropped, extract_if partially consumed, dedup_by: every element dropped exactly once"),
    ("drops_all_ranges_len3", ["C06", "C08"], ["bump_box::BumpBox<[T]>::{split_off,drain,extract_if,dedup_by}"], "same, length 3"),
    ("drops_all_ranges_len4", ["C06", "C08"], ["bump_box::BumpBox<[T]>::{split_off,drain,extract_if,dedup_by}"], "same, length 4"),
    ("zst_drops_all_ranges_len2", ["C06", "C08"], ["owned_slice::drain::Drain::drop (zero-sized elements)", "bump_box::BumpBox<[T]>::{drain,split_off,truncate,pop,into_iter}"], "zero-sized element type with a counting Drop: for every range and every number of consumed elements (front or back) the number of drops equals the number of elements"),
    ("zst_drops_all_ranges_len3", ["C06", "C08"], ["owned_slice::drain::Drain::drop (zero-sized elements)"], "same, length 3"),
    ("zst_drops_all_ranges_len5", ["C06", "C08"], ["owned_slice::drain::Drain::drop (zero-sized elements)"], "same, length 5"),
]:
    k("h_coll2::" + _n, _p, _fns, "B", _t, bound=_C2, timeout=1200)

# BumpVec over a real arena (h_grow.rs): only the downward fresh-arena overflow obligation finishes (14 min); thorough tier
k("h_grow::bump_vec_fresh_overflow_dn8", ["C07", "C08"], ["bump_vec::BumpVec::{new_in,try_push,try_reserve,generic_grow_amortized,generic_grow_to,drop}", "fixed_bump_vec::raw::RawFixedBumpVec::allocate", "allocator_impl::{allocate,grow,deallocate}"], "B",
  "BumpVec<u16> over a fresh one-chunk arena, two pushes (symbolic values), then try_reserve of any amount whose byte size overflows: an error (no panic, no wrap), length / capacity / buffer address / contents unchanged; buffer is allocated memory; dropping reclaims at most its own buffer; wf",
  tier="thorough", bound="fresh arena (one chunk of 48 bytes, downward, MIN_ALIGN 8), 2 pushes, reservation > isize::MAX/2 elements", timeout=2400)

# strings (C09): concrete byte-length pattern of the characters, symbolic scalar values within each length class
_SB = "text of <=2 characters with a concrete byte-length pattern [a,b] (a,b in 1..4), every scalar value of those lengths symbolic; every byte index enumerated; buffer of 8 bytes"
_quick_pats = {"1_0", "4_0", "1_2", "2_3", "3_1", "4_4", "2_1", "3_4"}
for _a in (1, 2, 3, 4):
    for _b in (0, 1, 2, 3, 4):
        _pn = "%d_%d" % (_a, _b)
        k("h_coll::str_ops_pat_" + _pn, ["C09", "C16"], ["bump_box::BumpBox<str>::{truncate,split_off,remove,pop,assert_char_boundary}"], "B",
          "truncate / split_off(idx..) / remove at every boundary index and pop: same result and contents as std::string::String, contents valid UTF-8 (independent validator)",
          tier=("quick" if _pn in _quick_pats else "thorough"), bound=_SB, timeout=900, inst="pattern [%d,%d]" % (_a, _b))
for _pn in ("1_2", "3_1", "2_4", "4_3", "4_4"):
    k("h_coll::fixed_str_grow_pat_" + _pn, ["C09", "C07"], ["fixed_bump_string::FixedBumpString::{try_insert,try_insert_str,try_push_str,try_replace_range,from_utf8_unchecked,capacity}"], "B",
      "at every boundary index: the try_ operation succeeds iff the result fits the fixed capacity; on success same contents as String, on failure contents unchanged; always valid UTF-8; capacity fixed",
      tier=("quick" if _pn in ("1_2", "4_4") else "thorough"), bound=_SB, timeout=1800, inst="pattern " + _pn)
for _pn in ("2_3", "4_1", "3_4", "1_2"):
    k("h_coll::str_bad_index_pat_" + _pn, ["C09"], ["bump_box::BumpBox<str>::{truncate,split_off,remove,assert_char_boundary}"], "B",
      "for every out-of-range or non-boundary index (symbolic over all of them) truncate (inside the string) / split_off / remove never return (must-not-reach cover unsatisfiable; panic)",
      bound=_SB, timeout=900, inst="pattern " + _pn, should_panic=True)
for _pn, _tier in (("1_1_2", "quick"), ("2_1_3", "quick"), ("1_2_1", "thorough"), ("2_3_2", "thorough")):
    k("h_coll::fixed_str_split_off_" + _pn, ["C16", "C09", "C08", "C06", "C01"], ["fixed_bump_string::FixedBumpString::split_off", "fixed_bump_vec::FixedBumpVec::split_off"], "B",
      "for EVERY boundary range of a three-character text: the part is the range, the rest keeps its order, both valid UTF-8, capacities add up to the original, the two buffers (capacity included) are disjoint and inside the original buffer",
      tier=_tier, bound="three characters with the concrete UTF-8 length pattern, all scalar values symbolic; every boundary range enumerated; buffer of 8 bytes", timeout=1500, inst="pattern " + _pn)
for _l in (2, 3, 4):
    k("h_coll::from_utf8_len%d" % _l, ["C09"], ["bump_box::BumpBox<str>::from_utf8"], "B",
      "BumpBox::from_utf8 accepts exactly the byte strings core::str::from_utf8 accepts; the harness' own validator agrees with std",
      bound="all byte strings of length %d" % _l, timeout=900)


# ----------------------------------------------------------------------------- growable collections against the arena's CONTRACT (h_stub.rs)
# The real collection code (BumpVec / MutBumpVec / MutBumpVecRev) is the code under proof; the allocator is `StubBump`,
# an executable statement of the allocator traits' contract (two regions = current chunk and a newer chunk, either
# bump direction, requests refusable).  Every pointer / layout the collection hands back is checked by the stub.
_STB = "contract stub instead of the arena (regions of 64 and 128 bytes, direction as instantiated, `used` bytes handed out before); element type u16 (drops: 1-byte token); number of elements concrete (2..5), element values symbolic; requested amounts symbolic over the full usize range where the operation takes one"
_STUB_OPS = {
    "op_reserve": ("try_reserve", "reserve over the FULL usize range: byte-size overflow is an error (no panic, no wrap); success gives capacity >= len + additional"),
    "op_reserve_exact": ("try_reserve_exact", "reserve_exact over the FULL usize range: overflow is an error; success gives capacity >= len + additional"),
    "op_push": ("try_push", "push that has to grow: served (in place or moved) or refused"),
    "op_insert": ("try_insert", "insert at every index, growing"),
    "op_extend": ("try_extend_from_slice_copy", "extend by a slice, growing"),
    "op_extend_clone": ("try_extend_from_slice_clone", "extend by a slice (Clone path), growing"),
    "op_resize": ("try_resize", "resize to any length 0..8 (growing or truncating)"),
    "op_append": ("try_append", "append an owned array, growing"),
    "op_extend_within": ("try_extend_from_within_copy", "extend from an own sub-range, growing"),
    "mop_reserve": ("try_reserve", "reserve over the FULL usize range"),
    "mop_reserve_exact": ("try_reserve_exact", "reserve_exact over the FULL usize range"),
    "mop_push": ("try_push", "push on a full vector (moves to a newer region or is refused)"),
    "mop_extend": ("try_extend_from_slice_copy", "extend a full vector by a slice (a reversed vector prepends it as a whole)"),
    "mop_insert": ("try_insert", "insert in the middle of a full vector"),
}


def _stub_h():
    import os as _os
    here = _os.path.dirname(_os.path.dirname(_os.path.abspath(__file__)))
    pth = _os.path.join(here, "kani", "incrate", "h_stub.rs")
    if not _os.path.exists(pth):
        return
    txt = open(pth).read()
    for m in _re.finditer(r"^    (stub_vec_\w+): (true|false), (\d+), (\d+), (true|false), (op_\w+);", txt, _re.M):
        name, up, used, n, foreign, op = m.groups()
        meth, what = _STUB_OPS[op]
        k("h_stub::" + name, ["C07", "C08", "C01", "C13"], ["bump_vec::BumpVec::{new_in,try_push,%s,generic_grow_amortized,generic_grow_to,generic_reserve,drop}" % meth, "fixed_bump_vec::raw::RawFixedBumpVec::allocate"], "B",
          "BumpVec<u16>: %s; a refused request leaves length, capacity, buffer address and contents unchanged (C07); otherwise same contents as the model (C08); the buffer is a live aligned block and every grow/deallocate call gets a live block with a consistent layout (C01, checked inside the stub); drop reclaims at most the vector's own buffer (C13)%s" % (what, "; another block is handed out after the buffer, so growth moves it and nothing is reclaimed" if foreign == "true" else ""),
          bound=_STB, timeout=900, inst="UP=%s used=%s n=%s foreign=%s" % (up, used, n, foreign))
    _conv = {"0": ("shrink_to_fit", ["C08", "C13", "C02", "C01", "C16"]), "1": ("shrink_to", ["C08", "C02", "C01", "C16", "C13"]), "2": ("into_boxed_slice", ["C08", "C01", "C13"]), "3": ("into_fixed_vec", ["C08", "C01"]),
             "4": ("split_off", ["C16", "C01", "C08", "C06"]), "5": ("into_iter", ["C08", "C01"])}
    for m in _re.finditer(r"^    (stub_conv_\w+): (true|false), (\d+), (\d+), (\d+), (true|false), (\d);", txt, _re.M):
        name, up, used, n, spare, foreign, op = m.groups()
        meth, props = _conv[op]
        k("h_stub::" + name, props, ["bump_vec::BumpVec::{try_with_capacity_in,try_push,%s,drop}" % meth], "B",
          "BumpVec<u16> with spare capacity: %s keeps length and contents, capacity between len and the old capacity, result is a live aligned block; shrinking the newest block reclaims, any other block reclaims nothing; split_off halves are separate live disjoint vectors that can be dropped in either order; pointers handed to shrink/deallocate are live blocks (checked inside the stub)" % meth,
          bound=_STB, timeout=900, inst="UP=%s used=%s n=%s spare=%s foreign=%s" % (up, used, n, spare, foreign))
    for m in _re.finditer(r"pub\(crate\) fn (stub_vec_drops_\w+)\(\)", txt):
        k("h_stub::" + m.group(1), ["C06", "C07", "C08"], ["bump_vec::BumpVec::{try_with_capacity_in,try_push,remove,drop,generic_grow_amortized}"], "B",
          "BumpVec of drop-counting tokens across growth: a moved buffer drops nothing, a refused push drops exactly the rejected value, a removed value stays alive until the caller drops it, at the end every token is dropped exactly once",
          bound=_STB, timeout=900)
    for m in _re.finditer(r"^    (stub_mut_vec_\w+): (true|false), (MutBumpVec(?:Rev)?), (\d+), (\d+), (\d), (mop_\w+);", txt, _re.M):
        name, up, ty, used, n, mode, op = m.groups()
        meth, what = _STUB_OPS[op]
        mod = "mut_bump_vec::MutBumpVec" if ty == "MutBumpVec" else "mut_bump_vec_rev::MutBumpVecRev"
        k("h_stub::" + name, ["C07", "C08", "C17"], [mod + "::{new_in,try_push,%s,generic_grow_amortized,generic_grow_to,into_boxed_slice,into_slice_ptr}" % meth], "B",
          "%s<u16> over the exclusive allocator contract: %s; %s; then into_boxed_slice: the committed slice has the model's contents in slice order, is a live aligned block, committed bytes are accounted; commits stay inside the prepared region with len <= cap (checked inside the stub)"
          % (ty, what, ["requests are served", "every request for new memory is refused: length, capacity, contents unchanged", "a new region (chunk) is refused: length, capacity, contents unchanged"][int(mode)]),
          bound=_STB, timeout=900, inst="UP=%s used=%s n=%s mode=%s" % (up, used, n, mode))

    _sops = {"sop_push": "try_push", "sop_push_str": "try_push_str", "sop_insert": "try_insert", "sop_insert_str": "try_insert_str", "sop_extend_within": "try_extend_from_within",
             "sop_replace_range": "try_replace_range", "sop_replace_range_shorter": "try_replace_range", "sop_reserve": "try_reserve", "sop_shrink_and_box": "shrink_to_fit"}
    for m in _re.finditer(r"^    (stub_str_\w+): (true|false), (\d+), \[(\d), (\d)\], \[(\d), (\d)\], (true|false), (true|false), (sop_\w+);", txt, _re.M):
        name, up, used, a, b, xa, xb, foreign, refused, op = m.groups()
        k("h_stub::" + name, ["C09", "C07", "C08", "C01"], ["bump_string::BumpString::{try_from_str_in,%s,generic_reserve,as_mut_vec,drop}" % _sops[op], "bump_vec::BumpVec<u8>::{generic_grow_amortized,generic_grow_to}"], "B",
          "BumpString built from a text with UTF-8 length pattern [%s,%s] (symbolic scalars), then %s with text pattern [%s,%s]; requests %s: on failure length, capacity and buffer unchanged (C07); contents equal std::string::String's after the same operation and are valid UTF-8 (independent validator) (C09); capacity >= len; buffer a live block (C01)"
          % (a, b, _sops[op], xa, xb, "refused" if refused == "true" else "served"),
          bound="contract stub instead of the arena; text of two characters with a concrete UTF-8 length pattern, scalar values symbolic; concrete boundary index; reserve amounts over the full usize range", timeout=1200,
          inst="UP=%s used=%s foreign=%s" % (up, used, foreign))
    for m in _re.finditer(r"^    (stub_str_bad_index_\w+): (true|false), \[(\d), (\d)\];", txt, _re.M):
        k("h_stub::" + m.group(1), ["C09"], ["bump_string::BumpString::{try_insert,try_insert_str,try_replace_range,try_extend_from_within,truncate}", "bump_box::BumpBox<str>::assert_char_boundary", "polyfill::slice::range"], "B",
          "for every index / range that is out of range, inverted or not on a character boundary (symbolic over all of them) try_insert, try_insert_str, try_replace_range (bad start, bad end), try_extend_from_within and truncate never return (must-not-reach cover unsatisfiable; std::string::String panics in exactly these cases)",
          bound="text with UTF-8 length pattern [%s,%s], scalar values symbolic" % (m.group(3), m.group(4)), timeout=900, should_panic=True)

    _eops = {"e_alloc": ("try_alloc", ["C17", "C01", "C07"]), "e_alloc_with": ("try_alloc_with", ["C17", "C01", "C07"]), "e_alloc_default": ("try_alloc_default", ["C17", "C01"]), "e_alloc_uninit": ("try_alloc_uninit + BumpBox::init", ["C17", "C01"]),
             "e_slice_copy": ("try_alloc_slice_copy", ["C17", "C01", "C07"]), "e_slice_clone": ("try_alloc_slice_clone", ["C17", "C01"]), "e_slice_fill": ("try_alloc_slice_fill", ["C17", "C01"]), "e_slice_fill_with": ("try_alloc_slice_fill_with", ["C17", "C01"]),
             "e_uninit_slice": ("try_alloc_uninit_slice", ["C17", "C01"]), "e_slice_move": ("try_alloc_slice_move", ["C06", "C17", "C01", "C07"]), "e_str": ("try_alloc_str", ["C17", "C09", "C01"]), "e_iter": ("try_alloc_iter", ["C17", "C01", "C07", "C08"]),
             "e_iter_exact": ("try_alloc_iter_exact", ["C17", "C01", "C08"]), "e_cstr": ("try_alloc_cstr", ["C17", "C01"]), "e_cstr_from_str": ("try_alloc_cstr_from_str", ["C17", "C01"])}
    for m in _re.finditer(r"^    (stub_scope_\w+): (true|false), (\d+), (true|false), (e_\w+);", txt, _re.M):
        name, up, used, refused, op = m.groups()
        meth, props = _eops[op]
        k("h_stub::" + name, props, ["traits::BumpAllocatorTypedScope::%s (provided method: the implementation behind the inherent methods of Bump / BumpScope and every generic or dyn user)" % meth], "B",
          "%s against the allocator contract: the result holds the value(s) (in order, closure called once per element), is a live block of the right size, aligned for the element type and disjoint from everything handed out before; a refused request is an error (slice_move: the values are dropped exactly once either way)" % meth,
          bound="contract stub instead of the arena; 1..5 elements of u16/u32/u64 (symbolic values), `used` bytes handed out before", timeout=600, inst="UP=%s used=%s refused=%s" % (up, used, refused))
    k("h_stub::stub_scope_slice_len_overflow_up", ["C07", "C17"], ["traits::BumpAllocatorTypedScope::try_alloc_uninit_slice"], "B",
      "a slice length whose byte size overflows (every n > isize::MAX/4 for u32) is reported as an error", bound="contract stub; loop-free over all such n", timeout=600)

    for m in _re.finditer(r"pub\(crate\) fn (stub_vec_zst_\w+)\(\)", txt):
        k("h_stub::" + m.group(1), ["C06", "C08"], ["bump_vec::BumpVec / mut_bump_vec::MutBumpVec / mut_bump_vec_rev::MutBumpVecRev with a zero-sized element type: {try_push,try_extend_from_within_clone,try_extend_from_slice_clone,try_resize,truncate,pop,remove,try_insert,clear,drop}"], "B",
          "zero-sized element type with Drop + Clone that counts constructions and drops: capacity usize::MAX, no memory is ever requested, after every step #created - #dropped equals the number of values the vector (and the caller) still own - a value materialised from nothing inside the collection is never dropped; at the end every value was dropped exactly once",
          bound="contract stub (every request would be refused); one concrete sequence of 12 operations", timeout=900)
    _mops = {"0": "try_push", "1": "try_push_str", "2": "try_insert_str", "3": "try_reserve", "4": "try_extend_from_within"}
    _no_verdict = {"stub_mut_str_push_up", "stub_mut_str_push_dn", "stub_mut_str_reserve_up", "stub_mut_str_push_str_dn"}  # no verdict within 10 min / 14 GB (char::encode_utf8 + region switch)
    _quick_mut_str = {"stub_mut_str_insert_str_refused_dn", "stub_mut_str_extend_within_no_region_dn", "stub_mut_str_push_refused_up", "stub_mut_str_reserve_refused_dn"}
    for m in _re.finditer(r"^    (stub_mut_str_\w+): (true|false), (\d+), \[(\d), (\d)\], \[(\d), (\d)\], (\d), (\d);", txt, _re.M):
        name, up, used, a, b, xa, xb, mode, op = m.groups()
        if name in _no_verdict:
            continue
        k("h_stub::" + name, ["C09", "C07", "C17"], ["mut_bump_string::MutBumpString::{try_from_str_in,%s,into_boxed_str}" % _mops[op], "mut_bump_vec::MutBumpVec<u8>::{generic_grow_amortized,into_slice_ptr}"], "B",
          "MutBumpString over the exclusive allocator contract, text pattern [%s,%s], %s with pattern [%s,%s], %s; then into_boxed_str: same contents as std::string::String, valid UTF-8, committed block live and accounted; refused growth changes nothing"
          % (a, b, _mops[op], xa, xb, ["served (moves to the newer region)", "every request refused", "a new region refused"][int(mode)]),
          tier=("quick" if name in _quick_mut_str else "thorough"), bound="contract stub; two characters with a concrete UTF-8 length pattern, scalar values symbolic", timeout=1800, inst="UP=%s used=%s" % (up, used))
    for m in _re.finditer(r"^    (stub_iter_mut_\w+): (true|false), (\d+), (true|false), (true|false);", txt, _re.M):
        name, up, used, rev, refused = m.groups()
        k("h_stub::" + name, ["C17", "C15", "C01", "C07"], ["traits::MutBumpAllocatorTypedScope::%s (provided method)" % ("try_alloc_iter_mut_rev" if rev == "true" else "try_alloc_iter_mut"), "mut_bump_vec%s::{try_push,into_boxed_slice}" % ("_rev::MutBumpVecRev" if rev == "true" else "::MutBumpVec")], "B",
          "the slice holds the items in iteration order (reversed for _rev), is a live aligned block, exactly the slice stays allocated; a refused request is an error and leaves nothing allocated",
          bound="contract stub; 3 items (symbolic u16)", timeout=600, inst="UP=%s used=%s refused=%s" % (up, used, refused))
    for m in _re.finditer(r"^    (stub_twins_(\w+?)(?:_short|_long)?_(up|dn)): (true|false), (\d+), ", txt, _re.M):
        name, meth, _d, up, used = m.groups()
        k("h_stub::" + name, ["C17"], ["traits::BumpAllocatorTypedScope / MutBumpAllocatorTypedScope: alloc_%s and try_alloc_%s (provided methods)" % (meth, meth)], "B",
          "the panicking method and its try_ twin, started from the same state: same block (offset), same number of bytes handed out, same contents" + (" - for an ExactSizeIterator whose len() is wrong (shorter / longer than promised)" if ("_short_" in name or "_long_" in name) else ""),
          bound="contract stub; <= 4 items (symbolic u16)", timeout=600, inst="UP=%s used=%s" % (up, used))

    for m in _re.finditer(r"^    (stub_splice_(?!drops)\w+): (true|false), (\d), (\d), (\d), (true|false);", txt, _re.M):
        name, up, lo, hi, nrep, foreign = m.groups()
        k("h_stub::" + name, ["C08", "C01"], ["bump_vec::BumpVec::splice", "bump_vec::splice::Splice::{next,drop,fill,move_tail}", "bump_vec::drain::Drain"], "B",
          "BumpVec::splice against Vec::splice for a vector of 4 elements: removed items in order, resulting contents and length, capacity >= len, buffer a live block",
          bound="contract stub; length 4, range %s..%s, %s replacement items, element values symbolic" % (lo, hi, nrep), timeout=900, inst="UP=%s foreign=%s" % (up, foreign))
    for m in _re.finditer(r"pub\(crate\) fn (stub_splice_drops_\w+)\(\)", txt):
        k("h_stub::" + m.group(1), ["C06", "C08"], ["bump_vec::BumpVec::splice", "bump_vec::splice::Splice::drop"], "B",
          "splice with drop-counting tokens, 0 / 1 / 2 removed items consumed: removed items are handed out alive, unconsumed ones are dropped once by the Splice, kept and inserted items stay alive; at the end every token dropped exactly once",
          bound="contract stub; 4 tokens, range 1..3, one replacement", timeout=900)
    for m in _re.finditer(r"pub\(crate\) fn (stub_str_drain_\w+)\(\)", txt):
        k("h_stub::" + m.group(1), ["C09"], ["bump_string::BumpString::drain", "owned_str::drain::Drain::{next,drop}"], "B",
          "BumpString::drain for EVERY boundary range of a three-character text: drained characters and remaining text equal std::string::String's, the rest is valid UTF-8",
          bound="contract stub; three characters with a concrete UTF-8 length pattern, scalar values symbolic", timeout=1500)
    _mk = {"0": ("bump_vec::BumpVec::try_map", ["C08", "C07", "C01"], "try_map to a larger element type (new allocation): each element mapped once in order, block live and aligned; refused is an error"),
           "1": ("bump_vec::BumpVec::map_in_place", ["C08", "C01"], "map_in_place to a smaller element type: same allocation, capacity recomputed inside it, elements mapped in order"),
           "2": ("mut_bump_vec::MutBumpVec::map_in_place", ["C08", "C17"], "MutBumpVec::map_in_place then into_boxed_slice: mapped elements in order, committed block live and aligned"),
           "3": ("mut_bump_vec::into_iter::IntoIter::{next,next_back,len,drop}", ["C06", "C08"], "MutBumpVec by-value iterator with drop-counting tokens consumed from both ends: yielded values alive, the rest dropped once with the iterator")}
    for m in _re.finditer(r"^    (stub_map_\w+): (true|false), (\d), (true|false);", txt, _re.M):
        name, up, kind, refused = m.groups()
        fn, props, what = _mk[kind]
        k("h_stub::" + name, props, [fn], "B", what, bound="contract stub; 3-4 elements, values symbolic", timeout=600, inst="UP=%s refused=%s" % (up, refused))

    for m in _re.finditer(r"^    (stub_into_cstr_\w+): (true|false), \[(\d), (\d)\], (true|false), (true|false);", txt, _re.M):
        name, up, a, b, nul, refused = m.groups()
        k("h_stub::" + name, ["C09", "C07", "C01"], ["bump_string::BumpString::{try_into_cstr,generic_into_cstr,into_boxed_str}"], "B",
          "try_into_cstr of a text with UTF-8 length pattern [%s,%s] %s: the C string is the text up to the FIRST nul byte (byte index, also after multi-byte characters) plus the terminator; an error only when the terminator needs memory that is refused"
          % (a, b, "followed by a nul and more text" if nul == "true" else "without a nul"), bound="contract stub; two characters, scalar values symbolic (non-nul)", timeout=900, inst="UP=%s refused=%s" % (up, refused))
    for n_ in ("stub_twins_zst_slice_fill_with_up", "stub_twins_zst_slice_fill_dn", "stub_twins_zst_no_memory"):
        k("h_stub::" + n_, ["C17"], ["traits::BumpAllocatorTypedScope::{alloc_slice_fill_with,try_alloc_slice_fill_with,alloc_slice_fill,try_alloc_slice_fill,alloc_slice_copy} with a zero-sized element type"], "B",
          "zero-sized element types whose alignment exceeds the position's: the panicking method and its try_ twin return the same block, hand out the same number of bytes (none), call the closure once per element; neither asks the allocator for memory",
          bound="contract stub; [u64;0] / [u32;0] / [u16;0], 2-3 elements", timeout=600)
    for m in _re.finditer(r"^    (stub_mut_(?:rev_)?extend_within_\w+): (true|false), (true|false), (\d);", txt, _re.M):
        name, up, rev, mode = m.groups()
        k("h_stub::" + name, ["C08", "C07", "C15"], ["mut_bump_vec%s::{try_extend_from_within_copy,generic_extend_from_within_copy,generic_reserve}" % ("_rev::MutBumpVecRev" if rev == "true" else "::MutBumpVec")], "B",
          "try_extend_from_within_copy(1..3) on a FULL exclusive vector of 4 elements (has to move to the newer region): same contents as the model (a reversed vector prepends the range as a whole); refused: nothing changes",
          bound="contract stub; element values symbolic", timeout=900, inst="UP=%s mode=%s" % (up, mode))


_stub_h()


# ----------------------------------------------------------------------------- fixed-capacity arithmetic over the full usize domain (h_coll3.rs)
for _n, _fns, _t in [
    ("fixed_reserve_full_domain", ["fixed_bump_vec::FixedBumpVec::{try_reserve,generic_reserve}"], "try_reserve(additional) for EVERY additional: Ok exactly when additional <= capacity - len (no overflow of len + additional); length, capacity, contents unchanged"),
    ("fixed_resize_full_domain", ["fixed_bump_vec::FixedBumpVec::{try_resize,generic_resize}"], "try_resize(new_len, x) for EVERY new_len: Ok exactly when new_len <= capacity; contents as Vec::resize; a failed resize keeps the length"),
    ("fixed_zst_reserve_full_domain", ["fixed_bump_vec::FixedBumpVec::<()>::{try_reserve,generic_reserve,capacity}"], "zero-sized elements (capacity usize::MAX), EVERY len and additional: Ok exactly when additional <= usize::MAX - len"),
    ("fixed_string_reserve_full_domain", ["fixed_bump_string::FixedBumpString::{try_reserve,generic_reserve,try_push_str}"], "try_reserve(additional) for EVERY additional: Ok exactly when it fits; contents unchanged"),
]:
    k("h_coll3::" + _n, ["C07", "C08"], _fns, "P-inst", _t, bound=None, timeout=600, inst="element type u8 / (), capacity 5 / 8, len symbolic, request over the full usize domain (loop-free)")

# ----------------------------------------------------------------------------- the owning type, guard on an unallocated arena, more over-granting allocators (h_owner.rs)
_OWN = {"0": ("try_new_in", "exactly one chunk, size multiple of 16, stats coherent; drop releases every chunk once"), "1": ("try_with_size_in(100)", "one chunk of at least the requested size less the assumed malloc overhead; drop releases it once"),
        "3": ("try_new_in / try_with_size_in / try_with_capacity_in with a refusing base allocator", "an error, nothing leaked, nothing released"), "4": ("reset after a second chunk was appended", "only the newest chunk is kept (one release), nothing allocated; drop releases the rest"),
        "5": ("into_raw / from_raw", "into_raw releases nothing, from_raw gives the same arena, drop releases every chunk once")}


def _owner_h():
    import os as _os
    here = _os.path.dirname(_os.path.dirname(_os.path.abspath(__file__)))
    pth = _os.path.join(here, "kani", "incrate", "h_owner.rs")
    if not _os.path.exists(pth):
        return
    txt = open(pth).read()
    for m in _re.finditer(r"^    (owner_\w+): (\w+), (\d);", txt, _re.M):
        name, st, which = m.groups()
        what, post = _OWN[which]
        k("h_owner::" + name, ["C05", "C07", "C10", "C12", "C03"] if which == "4" else ["C05", "C07", "C10", "C12"], ["bump::Bump::{%s, drop, reset, into_raw, from_raw}" % what.split(" ")[0], "raw_bump::RawBump::{with_size,manually_drop,reset}"], "B",
          "Bump (the owning type): %s: %s" % (what, post), bound="settings %s, first chunk of the minimum size" % st, timeout=900, inst=st)
    for n_, thr in (("claim_guard_unallocated_up1", False), ("claim_guard_unallocated_dn4", False), ("claim_guard_unallocated_used_up1", True)):
        k("h_owner::" + n_, ["C14", "C05"], ["bump_claim_guard::BumpClaimGuard::{new,drop}", "raw_bump::RawBump::{claim,reclaim}"], "B",
          "BumpClaimGuard on an UNALLOCATED arena (%s): while it lives the original is claimed and fails; after the guard is dropped the original is unclaimed, continues where the guard stopped, is allocated iff the guard allocated, and serves requests again; every chunk released" % ("a chunk is created through the guard" if thr else "nothing allocated through the guard"),
          bound="loop-free", timeout=600)
    for n_, st in (("mut_vec_map_in_place_up1", "MIN_ALIGN=1 up"), ("mut_vec_map_in_place_dn1", "MIN_ALIGN=1 down")):
        k("h_owner::" + n_, ["C15"], ["mut_bump_vec::MutBumpVec::{new_in,try_push,map_in_place,into_slice,into_slice_ptr}", "fixed_bump_vec::FixedBumpVec::map_in_place", "bump_scope::BumpScope::allocate_prepared_slice"], "B",
          "MutBumpVec<u32> over the REAL arena from an arbitrary state: 0..2 pushes (the chunk may be full), map_in_place to [u8;3], into_slice - never panics, yields the mapped elements, the position advances by the contents plus the alignment padding of the region and nothing else (the downward instantiation violates this: recorded finding, see known_findings.txt), wf",
          bound="K=1 (48-byte chunk), <= 2 elements", timeout=900, inst=st)
    for n_, st in (("later_chunk_reuse_up1", "MIN_ALIGN=1 up"), ("later_chunk_reuse_dn8", "MIN_ALIGN=8 down"), ("later_chunk_reuse_dn1", "MIN_ALIGN=1 down")):
        k("h_owner::" + n_, ["C03", "C01", "C10", "C15"], ["raw_bump::RawBump::{alloc,alloc_in_another_chunk,in_another_chunk}", "raw_bump::RawChunk::reset"], "B",
          "the current chunk is too full, the base allocator refuses new memory, the request fits an EMPTY later chunk: it is served from that chunk, which is reset first whatever stale position it carries (chunks acquired earlier stay usable; repeating a workload needs no new memory); block inside that chunk, aligned; wf",
          bound="K=2 (48 / 112-byte chunks), layout size <= 48, align <= 8", timeout=900, inst=st)
    for n_, inst in (("overgrant_dn1_align32_by48", "LogAlloc<Align32>, MIN_ALIGN=1 down, over-grant 48"), ("overgrant_dn8_align64_by80", "LogAlloc<Align64>, MIN_ALIGN=8 down, over-grant 80"), ("overgrant_up4_align32_by16", "LogAlloc<Align32>, MIN_ALIGN=4 up, over-grant 16")):
        _props, _fns, _text, _bound = _OB["ob_overgrant"]
        k("h_owner::" + n_, _props, _fns, "B", _text + " - over-grant a multiple of 16 but not of the over-aligned header alignment", bound="K=1", timeout=900, inst=inst)


_owner_h()


# ----------------------------------------------------------------------------- provided methods of the crate's Allocator trait (h_alloc.rs)
for _n, _via in (("alloc_default_grow", False), ("alloc_default_grow_via_ref", True), ("alloc_default_grow_zeroed", False), ("alloc_default_grow_zeroed_via_ref", True),
                 ("alloc_default_shrink", False), ("alloc_default_shrink_via_ref", True), ("alloc_default_allocate_zeroed", False), ("alloc_default_allocate_zeroed_via_ref", True)):
    k("h_alloc::" + _n, ["C02", "C07", "C05"], ["alloc::Allocator::{allocate_zeroed,grow,grow_zeroed,shrink} (provided methods)" + (", impl Allocator for &A" if _via else "")], "B",
      "the provided reallocation methods of the crate's Allocator trait on a two-block allocator: the surviving prefix is preserved, grow_zeroed's tail / allocate_zeroed's block is zero, the old block is released exactly once with its own layout, a refused request is an error that keeps the old block untouched",
      bound="block sizes 0..16 symbolic, align 1", timeout=600)

# ----------------------------------------------------------------------------- full-domain twins of the lib.rs helpers (h_kernel2.rs)
k("h_kernel2::k_up_align_usize_unchecked", ["C18", "C13"], ["lib::up_align_usize_unchecked"], "P", "r == up(addr, align) whenever addr + align - 1 does not overflow; every 64-bit input", timeout=300)
k("h_kernel2::k_down_align_usize", ["C18", "C13"], ["lib::down_align_usize"], "P", "r == down(addr, align); every 64-bit input", timeout=300)
k("h_kernel2::k_min_non_zero_cap", ["C08"], ["lib::min_non_zero_cap"], "P", "the first capacity of a growable vector is never zero (the amortisation policy itself is not prescribed); every element size", timeout=300)

# ----------------------------------------------------------------------------- non-growing index operations of the exclusive vectors (h_rev.rs)
for _n, _t in (("rev_remove_idx0_up", "index 0, up"), ("rev_remove_idx1_dn", "index 1, down"), ("rev_remove_idx2_up", "index 2, up"), ("rev_remove_idx3_dn", "index 3 (last), down")):
    k("h_rev::" + _n, ["C08"], ["mut_bump_vec_rev::MutBumpVecRev::{try_push,remove,swap_remove,pop}"], "B",
      "MutBumpVecRev<u16> of 4 symbolic elements over the contract stub: remove(i) for the given index, then remove(last), swap_remove(1) (mirrored: hole filled with the first element), pop (first element), pop on empty: same return values, length and contents as the mirrored std::vec::Vec meaning; buffer end and capacity unchanged",
      bound="length 4, %s; allocator = contract stub" % _t, timeout=900)
for _n, _t in (("fwd_remove_idx0_dn", "index 0, down"), ("fwd_remove_idx3_up", "index 3 (last), up")):
    k("h_rev::" + _n, ["C08"], ["mut_bump_vec::MutBumpVec::{try_push,remove,swap_remove,truncate}"], "B",
      "MutBumpVec<u16> of 4 symbolic elements over the contract stub: remove(i), swap_remove(0), truncate(1): same return values, length and contents as std::vec::Vec; buffer and capacity unchanged",
      bound="length 4, %s; allocator = contract stub" % _t, timeout=900)
for _n, _t in (("shared_remove_idx1_up", "index 1, up"), ("shared_remove_idx3_dn", "index 3 (last), down")):
    k("h_rev::" + _n, ["C08"], ["bump_vec::BumpVec::{try_push,remove,swap_remove,truncate}", "fixed_bump_vec::FixedBumpVec::{remove,swap_remove,truncate}"], "B",
      "BumpVec<u16> of 4 symbolic elements over the contract stub: remove(i), swap_remove(0), truncate(1): same return values, length and contents as std::vec::Vec; buffer and capacity unchanged",
      bound="length 4, %s; allocator = contract stub" % _t, timeout=900)
for _n, _t in (("rev_truncate_to1_up", "to 1, up"), ("rev_truncate_to3_dn", "to 3, down")):
    k("h_rev::" + _n, ["C08"], ["mut_bump_vec_rev::MutBumpVecRev::truncate"], "B",
      "MutBumpVecRev::truncate keeps the LAST n elements (mirrored, as documented), length and contents checked",
      bound="length 4, %s; allocator = contract stub" % _t, timeout=900)

# ----------------------------------------------------------------------------- full-domain twins of src/chunk/size.rs (h_kernel3.rs)
_K3 = {
    "k_config_zst_up": ("ob_config", "A = (), up"), "k_config_a64_dn": ("ob_config", "A 64-aligned, down"), "k_config_a24_dn": ("ob_config", "A 24 bytes, down"),
    "k_align_allocation_size_zst_up": ("ob_align", "A = (), up"), "k_align_allocation_size_zst_dn": ("ob_align", "A = (), down"),
    "k_align_allocation_size_a64_dn": ("ob_align", "A 64-aligned, down"), "k_align_allocation_size_a64_up": ("ob_align", "A 64-aligned, up"),
    "k_from_hint_zst_up": ("ob_from_hint", "A = (), up, minimum 0"), "k_from_hint_a64_dn": ("ob_from_hint", "A 64-aligned, down"),
    "k_from_hint_a24_dn_min4096": ("ob_from_hint", "A 24 bytes, down, MINIMUM_CHUNK_SIZE 4096"),
    "k_from_capacity_zst_up": ("ob_from_capacity", "A = (), up"), "k_from_capacity_a64_dn": ("ob_from_capacity", "A 64-aligned, down"),
}
_K3T = {
    "ob_config": (["C12", "C10"], ["chunk::ChunkHeader layout", "chunk::ChunkSizeConfig"], "the header layout of the instantiated allocator type satisfies cfg_valid (align >= 16, size >= 32, multiple of align); overhead layout (16, 8) - the facts the Verus axioms header_layout_axiom / overhead_layout_axiom assume"),
    "ob_align": (["C05", "C12", "C10"], ["chunk::size::ChunkSize::align_allocation_size"], "every size: result <= size, multiple of 16 (and of the header alignment when downward), less than one alignment step below"),
    "ob_from_hint": (["C12", "C05", "C07"], ["chunk::size::{ChunkSize::from_hint,ChunkSize::layout,ChunkSizeHint::new,ChunkSizeHint::calc_size}"], "every hint: the size is what calc_size_from_hint prescribes for max(hint, MINIMUM_CHUNK_SIZE) under the configuration of (A, S); None exactly when that overflows; layout() is (size, header alignment)"),
    "ob_from_capacity": (["C12", "C07"], ["chunk::size::{ChunkSize::from_capacity,ChunkSizeHint::for_capacity}"], "every layout (alignment <= 4096): the chunk is sized for the hint the request needs; None exactly on overflow"),
}
for _n, (_g, _i) in _K3.items():
    k("h_kernel3::" + _n, _K3T[_g][0], _K3T[_g][1], "P-inst", _K3T[_g][2], bound=None, timeout=900, inst=_i)


def for_property(pid, tier):
    vs = [o for o in V if pid in o["props"]]
    ks = [o for o in K if pid in o["props"] and (tier == "thorough" or o["tier"] == "quick")]
    return vs, ks
