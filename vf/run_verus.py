"""Run Verus on the mechanically extracted kernel and classify the outcome per function."""
import json
import os
import re
import sys

from . import extract
from .common import BUILD, VERIF, cache_get, cache_put, ensure_dirs, run, sha

RLIMIT = "100"
VERUS_TIMEOUT = 900


def _fn_spans(kernel_text):
    """line spans (1-based, inclusive) of every fn item, qualified with its `pub mod` name."""
    spans = []
    # module spans
    mods = []
    for m in re.finditer(r"^\s*pub mod ([a-z0-9_]+) \{", kernel_text, re.M):
        try:
            close = extract.match_close(kernel_text, m.end() - 1, "{", "}")
        except Exception:
            continue
        mods.append((m.start(), close, m.group(1)))
    for f in extract.find_functions(kernel_text):
        mod = ""
        for (o, c, name) in mods:
            if o < f["fn_kw"] < c:
                mod = name  # innermost wins because later entries are nested deeper
        l0 = kernel_text.count("\n", 0, f["line_start"]) + 1
        l1 = kernel_text.count("\n", 0, f["body_close"]) + 1
        spans.append((l0, l1, "kernel::%s::%s" % (mod, f["qual"])))
    return spans


def _parse_errors(stderr, spans):
    """Split rustc-style diagnostics into blocks and attach each to a function by line number."""
    blocks = re.split(r"\n(?=error|warning|note: )", stderr)
    per_fn = {}
    loose = []
    for b in blocks:
        if not b.startswith("error"):
            continue
        first = b.split("\n", 1)[0]
        if first.startswith("error: aborting"):
            continue
        lines = [int(x) for x in re.findall(r"--> [^:\n]+:(\d+):\d+", b)]
        target = None
        for ln in lines:
            for (l0, l1, name) in spans:
                if l0 <= ln <= l1:
                    target = name
                    break
            if target:
                break
        entry = dict(message=first, text=b[:4000])
        if target:
            per_fn.setdefault(target, []).append(entry)
        else:
            loose.append(entry)
    return per_fn, loose


def run_verus(force=False):
    ensure_dirs()
    out_rs = os.path.join(BUILD, "verus", "kernel.rs")
    res = dict(status="ran", functions={}, verified=0, errors=0, wall_s=0.0, smt_ms=0, extract={}, loose_errors=[])
    try:
        rep = extract.build(out_rs, out_rs + ".extract.json")
    except extract.ExtractError as e:
        res.update(status="extract-error", detail=str(e))
        return res
    except (OSError, ValueError) as e:
        res.update(status="extract-error", detail=repr(e))
        return res
    res["extract"] = rep
    if rep.get("lost_anchors"):
        res.update(status="lost-anchor", detail="contract anchors not found: %s" % rep["lost_anchors"])
        return res
    text = open(out_rs).read()
    res["kernel_sha256"] = sha(text)
    res["kernel_lines"] = text.count("\n")
    ver = run(["verus", "--version"])[1]
    key = "verus-" + sha(text + ver + RLIMIT)
    if not force:
        c = cache_get(key)
        if c is not None:
            c["cached"] = True
            return c
    cmd = ["verus", "kernel.rs", "--rlimit", RLIMIT, "--output-json", "--time-expanded", "--multiple-errors", "20"]
    rc, out, err, wall, to = run(cmd, cwd=os.path.dirname(out_rs), timeout=VERUS_TIMEOUT)
    res["cmd"] = " ".join(cmd)
    res["wall_s"] = round(wall, 2)
    res["verus_version"] = " ".join(ver.split())[:200]
    if to:
        res.update(status="timeout", detail="verus exceeded %ds" % VERUS_TIMEOUT)
        return res
    try:
        j = json.loads(out[out.index("{"):])
    except Exception:
        res.update(status="unsupported", detail="verus produced no JSON (construct outside its subset or syntax error)",
                   stderr_tail=err[-6000:])
        return res
    vr = j.get("verification-results", {})
    res["verified"] = vr.get("verified", 0)
    res["errors"] = vr.get("errors", 0)
    if vr.get("encountered-vir-error"):
        res.update(status="unsupported", detail="verus front-end error (construct outside its subset)", stderr_tail=err[-6000:])
        return res
    spans = _fn_spans(text)
    per_fn_err, loose = _parse_errors(err, spans)
    smt = j.get("times-ms", {}).get("smt", {})
    res["smt_ms"] = smt.get("smt-run", 0)
    fns = {}
    for m in smt.get("smt-run-module-times", []):
        for f in m.get("function-breakdown", []):
            name = f["function"]
            d = fns.setdefault(name, dict(success=True, time_ms=0, rlimit=0, mode=f.get("mode:", "")))
            d["success"] = d["success"] and bool(f.get("success"))
            d["time_ms"] += f.get("time", 0)
            d["rlimit"] += f.get("rlimit", 0)
    for name, errs in per_fn_err.items():
        d = fns.setdefault(name, dict(success=False, time_ms=0, rlimit=0, mode=""))
        d["success"] = False
        d["errors"] = errs
        d["rlimit_exceeded"] = all("Resource limit" in e["message"] for e in errs)
    for name, d in fns.items():
        if not d["success"] and "errors" not in d:
            d["errors"] = [dict(message="verus reported failure (no diagnostic attached)", text="")]
            d["rlimit_exceeded"] = False
    res["functions"] = fns
    res["loose_errors"] = loose
    # a front-end error that is not attached to a function and no per-function results at all
    if not fns and (rc != 0):
        res.update(status="unsupported", detail="verus failed before verification", stderr_tail=err[-6000:])
        return res
    if loose and res["errors"] and not any(not d["success"] for d in fns.values()):
        res.update(status="unsupported", detail="verus error outside any function: %s" % loose[0]["message"],
                   stderr_tail=err[-6000:])
        return res
    res["stderr_tail"] = err[-3000:] if res["errors"] else ""
    if res["errors"] == 0:
        cache_put(key, res)
    return res


if __name__ == "__main__":
    r = run_verus(force="--force" in sys.argv)
    print(json.dumps({k: v for k, v in r.items() if k not in ("functions", "extract")}, indent=1)[:3000])
    bad = {k: v for k, v in r.get("functions", {}).items() if not v["success"]}
    print("failing:", json.dumps(bad, indent=1)[:3000])
