"""Run Kani harnesses of the in-crate module (compiled from /repo's working tree) and parse results."""
import json
import os
import re
import shutil
import sys

from .common import BUILD, REPO, VERIF, cache_get, cache_put, ensure_dirs, hash_tree, run, sha

KANI_DIR = os.path.join(BUILD, "kani")
TARGET = os.path.join(KANI_DIR, "target")
# the in-crate module includes this fixed path (see kani/incrate/mod.rs)
PLAYBACK_RS = os.path.join(VERIF, "build", "kani", "playback_tests.rs")
MOD_PREFIX = "verif_kani::"
ENV = {"CARGO_NET_OFFLINE": "true", "CARGO_TERM_COLOR": "never"}


_COMMON = ["spec.rs", "state.rs", "h_arena.rs"]  # every harness module imports helpers from these
# helpers a module imports from another harness module (`use super::h_coll::{..}`)
_DEPS = {"h_stub": ["h_coll.rs"], "h_coll2": ["h_coll.rs"]}


def inputs_hash(harness=None):
    """Content hash of everything a harness verdict depends on: the repository sources, tool version, this
    parser, the shared in-crate files and the harness' own module file."""
    ver = run(["cargo", "kani", "--version"])[1] + sha(open(os.path.abspath(__file__)).read())
    inc = os.path.join(VERIF, "kani", "incrate")
    files = [os.path.join(inc, f) for f in _COMMON]
    if harness:
        mod = harness.split("::")[0]
        for f in [mod + ".rs"] + _DEPS.get(mod, []):
            own = os.path.join(inc, f)
            if own not in files:
                files.append(own)
    else:
        files = [inc]
    return sha(hash_tree([os.path.join(REPO, "src"), os.path.join(REPO, "Cargo.toml"), os.path.join(REPO, "Cargo.lock")] + files) + ver)


def ensure_playback_file():
    os.makedirs(KANI_DIR, exist_ok=True)
    if not os.path.exists(PLAYBACK_RS):
        open(PLAYBACK_RS, "w").write("// generated: concrete playback tests of failed obligations (none)\n")


def _parse(out_json, stdout, names):
    res = {}
    try:
        j = json.load(open(out_json))
    except Exception:
        return None
    byid = {}
    for r in j.get("verification_results", {}).get("results", []):
        byid[r["harness_id"]] = r
    cb = {c["harness_id"]: {"cbmc_stats": (c.get("cbmc_stats") or {})} for c in j.get("cbmc", [])}
    pd = {c["harness_id"]: c.get("property_details", {}) for c in j.get("property_details", [])}
    ed = {c["harness_id"]: c for c in j.get("error_details", [])}
    for full in names:
        r = byid.get(full)
        if r is None:
            continue
        checks = r.get("checks", [])
        all_covers = [c for c in checks if c.get("category") == "cover"]
        # covers named "must-not-reach: ..." sit behind a call that has to panic: they must be UNSATISFIABLE
        mnr = [c for c in all_covers if (c.get("description") or "").startswith("must-not-reach")]
        covers = [c for c in all_covers if c not in mnr]
        failed = [c for c in checks if c.get("status") == "Failure"]
        undet = [c for c in checks if c.get("status") not in ("Success", "Failure", "Unreachable", "Satisfied", "Unsatisfiable")]
        user_asserts = [c for c in checks if c.get("category") == "assertion"
                        and c.get("location", {}).get("file", "").startswith(os.path.join(VERIF, "kani"))
                        and re.match(r"^[A-Za-z0-9_]+\.[A-Za-z0-9_.]+$", c.get("description") or "")]
        d = dict(
            harness=full,
            status=r.get("status"),
            duration_s=round(r.get("duration_ms", 0) / 1000.0, 2),
            checks=len(checks),
            failed=[dict(description=c.get("description"), function=c.get("function"),
                         file=c.get("location", {}).get("file"), line=c.get("location", {}).get("line"),
                         category=c.get("category")) for c in failed],
            covers_total=len(covers),
            covers_satisfied=len([c for c in covers if c.get("status") == "Satisfied"]),
            covers_unsat=[c.get("description") for c in covers if c.get("status") != "Satisfied"],
            must_not_reach_hit=[c.get("description") for c in mnr if c.get("status") == "Satisfied"],
            user_assertions=len(user_asserts),
            user_assertions_unreachable=[c.get("description") for c in user_asserts if c.get("status") == "Unreachable"],
            undetermined=len(undet),
            undetermined_user=[c.get("description") for c in undet if c in user_asserts],
            undetermined_side=sorted(set((c.get("description") or "")[:90] for c in undet if c not in user_asserts))[:6],
            props=pd.get(full, {}),
            error=ed.get(full, {}),
            solver_s=cb.get(full, {}).get("cbmc_stats", {}).get("runtime_solver_s"),
            symex_s=cb.get(full, {}).get("cbmc_stats", {}).get("runtime_symex_s"),
            vccs=cb.get(full, {}).get("cbmc_stats", {}).get("vccs_generated"),
            unwinding_failed=[c.get("description") for c in failed if "unwinding" in (c.get("description") or "")],
        )
        if d["status"] == "Failure" and not d["failed"]:
            # CBMC gave no verdict (harness timeout / out of memory): undecided, never a violation
            d["status"] = "Timeout"
            d["detail"] = "CBMC produced no verdict (timeout or resource exhaustion): %s" % json.dumps(d["error"])[:300]
        res[full] = d
    return res


MEM_CAP_KB = int(os.environ.get("VERIF_CBMC_MEM_GB", "14")) * 1000 * 1000


def _watchdog(stop):
    """Kill any single cbmc process whose RSS exceeds the cap (it would otherwise take the machine down);
    the harness then has no verdict and is reported as undecided (never as a violation)."""
    import subprocess
    import time as _t
    while not stop.is_set():
        try:
            out = subprocess.run(["ps", "-eo", "pid,rss,comm"], capture_output=True, text=True).stdout
            for ln in out.split("\n")[1:]:
                f = ln.split()
                if len(f) == 3 and f[2] == "cbmc" and int(f[1]) > MEM_CAP_KB:
                    try:
                        os.kill(int(f[0]), 9)
                    except OSError:
                        pass
        except Exception:
            pass
        _t.sleep(2)


def run_kani(harnesses, jobs=8, harness_timeout=900, extra_args=None, use_cache=True, tag="run"):
    """harnesses: list of harness paths relative to the in-crate module, e.g. 'h_kernel::k_bump_up'.
    Returns {name: result}.  result['status'] in Success | Failure | Timeout | BuildError | Missing."""
    ensure_dirs()
    ensure_playback_file()
    results = {}
    todo = []
    ihs = {}
    for h in harnesses:
        mod = h.split("::")[0]
        if mod not in ihs:
            ihs[mod] = inputs_hash(h)
        key = "kani-%s-%s" % (ihs[mod][:32], h.replace("::", "."))
        c = cache_get(key) if use_cache else None
        if c is not None:
            c["cached"] = True
            results[h] = c
        else:
            todo.append(h)
    if not todo:
        return results
    out_json = os.path.join(KANI_DIR, "out-%s-%d.json" % (tag, os.getpid()))
    if os.path.exists(out_json):
        os.remove(out_json)
    cmd = ["cargo", "kani", "--target-dir", TARGET, "--exact", "-j", str(jobs), "--output-format", "terse",
           "--export-json", out_json, "--harness-timeout", "%ds" % harness_timeout, "-Z", "unstable-options",
           "--no-assertion-reach-checks"]
    for h in todo:
        cmd += ["--harness", MOD_PREFIX + h]
    if extra_args:
        cmd += extra_args
    total_timeout = harness_timeout * (1 + (len(todo) - 1) // max(1, jobs)) + 900
    import threading
    stop = threading.Event()
    th = threading.Thread(target=_watchdog, args=(stop,), daemon=True)
    th.start()
    try:
        rc, out, err, wall, to = run(cmd, cwd=REPO, env=ENV, timeout=total_timeout)
    finally:
        stop.set()
    text = out + "\n" + err
    parsed = _parse(out_json, text, [MOD_PREFIX + h for h in todo]) if os.path.exists(out_json) else None
    build_failed = ("error: could not compile" in text) or ("error[E" in text and "Checking harness" not in text)
    for h in todo:
        full = MOD_PREFIX + h
        if parsed and full in parsed:
            d = parsed[full]
        elif build_failed:
            errs = re.findall(r"(error(?:\[E\d+\])?: [^\n]+(?:\n[^\n]*){0,6})", text)
            d = dict(harness=full, status="BuildError", detail="\n".join(errs[:6])[:4000])
        elif to:
            d = dict(harness=full, status="Timeout", detail="cargo kani invocation exceeded %ds" % total_timeout)
        else:
            # harness-timeout or CBMC crash (out of memory): find a hint in the text
            m = re.search(r"(%s[^\n]*(?:timed out|Timeout|out of memory|killed|SIGKILL)[^\n]*)" % re.escape(full), text)
            if re.search(r"no harnesses matched|No proof harnesses", text) or ("Checking harness %s" % full) not in text:
                d = dict(harness=full, status="Missing", detail="harness not found / not run; tail: " + text[-1500:])
            else:
                d = dict(harness=full, status="Timeout", detail=(m.group(1) if m else "no result (timeout or CBMC resource exhaustion)"))
        d["invocation_wall_s"] = round(wall, 1)
        d["cached"] = False
        results[h] = d
        if d.get("status") == "Success" and use_cache:
            cache_put("kani-%s-%s" % (ihs[h.split("::")[0]][:32], h.replace("::", ".")), d)
    try:
        os.remove(out_json)
    except OSError:
        pass
    results["__log_tail__"] = text[-4000:]
    results["__cmd__"] = " ".join(cmd)
    return results


def concrete_playback(harness, timeout=1200):
    """Ask Kani for a concrete counterexample of a failing harness as a #[test], then run it natively."""
    ensure_playback_file()
    full = MOD_PREFIX + harness
    cmd = ["cargo", "kani", "--target-dir", TARGET, "--exact", "--harness", full, "-Z", "concrete-playback",
           "--concrete-playback=print", "--output-format", "terse", "--no-assertion-reach-checks"]
    rc, out, err, wall, to = run(cmd, cwd=REPO, env=ENV, timeout=timeout)
    text = out + "\n" + err
    m = re.search(r"```\n?(.*?)```", text, re.S)
    if not m:
        return dict(ok=False, detail="kani printed no concrete playback test", log=text[-3000:])
    test_src = m.group(1).strip()
    # strip a leading language tag line if any
    test_src = re.sub(r"^rust\n", "", test_src)
    m2 = re.search(r"fn (kani_concrete_playback_[A-Za-z0-9_]+)", test_src)
    if not m2:
        return dict(ok=False, detail="cannot find test name in playback output", log=test_src[:2000])
    tname = m2.group(1)
    # The generated test calls the harness by its bare name; it is compiled inside the harness' module.
    hmod = harness.rsplit("::", 1)[0]
    wrapped = "// generated by vf/run_kani.py: concrete playback of %s\n#[cfg(test)]\nmod pb_%s {\n    use crate::verif_kani::%s::*;\n    #[allow(unused_imports)]\n    use std::{vec, vec::Vec};\n%s\n}\n" % (
        full, tname, hmod, "\n".join("    " + l for l in test_src.split("\n")))
    open(PLAYBACK_RS, "w").write(wrapped)
    cmd2 = ["cargo", "kani", "playback", "-Z", "concrete-playback", "--lib", "--", tname]
    env2 = dict(ENV)
    env2["CARGO_TARGET_DIR"] = TARGET + "-playback"
    rc2, out2, err2, wall2, to2 = run(cmd2, cwd=REPO, env=env2, timeout=timeout)
    native = (out2 + "\n" + err2)
    # restore the empty playback file so later kani runs are unaffected
    open(PLAYBACK_RS, "w").write("// generated: concrete playback tests of failed obligations (none)\n")
    failed_natively = ("test result: FAILED" in native) or ("panicked at" in native)
    return dict(ok=True, test_name=tname, test_src=test_src, native_rc=rc2, native_failed=failed_natively,
                native_output=native[-4000:], wrapped=wrapped)


if __name__ == "__main__":
    r = run_kani(sys.argv[1:], use_cache=False)
    print(json.dumps(r, indent=1)[:6000])
