// Reproduction: a failed growth of a MutBumpVec (base allocator refuses the new chunk) after the slow path
// walked to a cached later chunk leaves the arena's current chunk on that later chunk, while the vector's
// (uncommitted) data still lives in the earlier chunk.  Finalising the vector then commits on the wrong chunk.
use std::{alloc::Layout, ptr::NonNull};

use bump_scope::{
    Bump, MutBumpVec,
    alloc::{AllocError, Allocator, Global},
    settings::BumpSettings,
    traits::{BumpAllocator, BumpAllocatorTyped},
};

/// refuses every request above 4 KiB
#[derive(Clone, Default)]
struct RefuseBig;

unsafe impl Allocator for RefuseBig {
    fn allocate(&self, layout: Layout) -> Result<NonNull<[u8]>, AllocError> {
        if layout.size() > 4096 {
            return Err(AllocError);
        }
        Global.allocate(layout)
    }
    unsafe fn deallocate(&self, ptr: NonNull<u8>, layout: Layout) {
        unsafe { Global.deallocate(ptr, layout) }
    }
}

fn run<const UP: bool>() {
    let mut bump: Bump<RefuseBig, BumpSettings<1, UP>> = Bump::with_size_in(512, RefuseBig);
    // make a second (cached) chunk, then return to the first one
    bump.scoped(|scope| {
        let _ = scope.allocate_layout(Layout::from_size_align(700, 1).unwrap());
    });
    assert_eq!(bump.stats().count(), 2);
    assert_eq!(bump.stats().allocated(), 0);

    let mut v: MutBumpVec<u8, _> = MutBumpVec::new_in(&mut bump);
    v.extend_from_slice_copy(&[7u8; 100]);
    // a reservation neither chunk can satisfy and the base allocator refuses: must fail and change nothing
    assert!(v.try_reserve(100_000).is_err());
    assert_eq!(v.len(), 100);
    assert!(v.iter().all(|b| *b == 7));
    let s = v.into_slice();
    assert_eq!(s.len(), 100);
    assert!(s.iter().all(|b| *b == 7));
    let addr = s.as_ptr() as usize;
    // the arena keeps working: allocated bytes account for the slice, a new allocation does not overlap it
    assert_eq!(bump.stats().allocated(), 100, "allocated bytes after a failed reserve + into_slice");
    let x = bump.allocate_layout(Layout::from_size_align(64, 1).unwrap());
    let xa = x.as_ptr() as usize;
    assert!(xa + 64 <= addr || addr + 100 <= xa, "new allocation overlaps the finalised slice");
}

#[test]
fn up() {
    run::<true>();
}

#[test]
fn down() {
    run::<false>();
}
