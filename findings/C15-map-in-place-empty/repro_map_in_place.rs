//! Native reproduction of genuine defect 5 (fixed by /repo commit 10c10ce) and of the recorded finding
//! C15 / K:h_owner::mut_vec_map_in_place_dn1 (not repaired).  Copy to /repo/tests/ and run
//! `cargo test --offline --test repro_map_in_place` (debug profile).
use bump_scope::{Bump, MutBumpVec, alloc::Global, settings::BumpSettings};

/// defect 5: before 10c10ce this panicked in debug builds
/// (`assertion left == right failed, left: 0x4, right: 0x1` at src/mut_bump_vec.rs:2253)
#[test]
fn empty_map_in_place_into_slice() {
    let mut bump: Bump = Bump::new();
    let v = MutBumpVec::<u32, _>::new_in(&mut bump);
    let w = v.map_in_place(|x| [x as u8, (x >> 8) as u8, (x >> 16) as u8]);
    assert_eq!(w.into_slice().len(), 0);
}

/// recorded finding (C15): downward arena, map_in_place to an element size that does not divide the old
/// capacity in bytes: finalising advances the position by the contents PLUS up to size_of::<U>() - 1 bytes
/// that are neither contents nor alignment padding (here 8 instead of 6 with no padding involved).
#[test]
fn down_map_in_place_leaves_a_gap() {
    let mut bump: Bump<Global, BumpSettings<1, false>> = Bump::new();
    let before = bump.stats().allocated();
    let mut v = MutBumpVec::<u32, _>::new_in(&mut bump);
    v.push(1);
    v.push(2);
    let w = v.map_in_place(|x| [x as u8, 0, 0]);
    assert_eq!(w.into_slice().len(), 2);
    let advance = bump.stats().allocated() - before;
    assert_eq!(advance, 6, "contents are 6 bytes, the position is 4-aligned before and needs no padding");
}
