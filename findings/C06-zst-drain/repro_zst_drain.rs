// Reproduction: dropping a partially consumed `Drain` over zero-sized elements drops the un-yielded elements twice.
use std::sync::atomic::{AtomicUsize, Ordering};

use bump_scope::Bump;

static DROPS: AtomicUsize = AtomicUsize::new(0);

struct Z;

impl Drop for Z {
    fn drop(&mut self) {
        DROPS.fetch_add(1, Ordering::SeqCst);
    }
}

#[test]
fn zst_drain_drops_each_element_once() {
    let bump: Bump = Bump::new();
    let mut b = bump.alloc_iter((0..5).map(|_| Z));
    assert_eq!(b.len(), 5);
    DROPS.store(0, Ordering::SeqCst);
    {
        let mut d = b.drain(1..4);
        std::mem::forget(d.next()); // one element leaves through the caller and is leaked on purpose
    } // the drain must drop the 2 un-yielded elements exactly once
    assert_eq!(b.len(), 2);
    assert_eq!(DROPS.load(Ordering::SeqCst), 2, "un-yielded elements of the drain");
    drop(b);
    assert_eq!(DROPS.load(Ordering::SeqCst), 4, "5 elements, one leaked");
}
